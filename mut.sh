#!/bin/sh
# usage: mut.sh <file> <python-regex> <replacement> <property>... : apply a one-off textual mutation to /repo, run checks, undo
f=$1; pat=$2; rep=$3; shift 3
cd /repo
python3 - "$f" "$pat" "$rep" <<'PY' || exit 9
import sys,re
f,pat,rep=sys.argv[1:4]
s=open(f).read()
n=len(re.findall(pat,s,flags=re.S))
if n!=1:
    print("pattern matched",n,"times"); sys.exit(1)
open(f,'w').write(re.sub(pat,rep,s,count=1,flags=re.S))
PY
. /verif/env.sh
go build ./... 2>&1 | head -5
for c in "$@"; do /verif/check $c quick 2>&1 | grep "^VIOLATION\|quick:" | cut -c1-260 | head -6; done
git checkout -- "$f"

#!/usr/bin/env python3
# regenerates MANIFEST.json from claims.json (the per-property claim texts) - keeps the manifest valid at all times
import json, subprocess
props=[json.loads(l) for l in open('properties.jsonl')]
claims=json.load(open('claims.json'))
hooks=subprocess.run(['git','-C','/repo','log','--format=%h','--grep=^verif:'],capture_output=True,text=True).stdout.split()
m={"version":1,"setup_cmd":"./setup.sh",
 "hooks":{"guard":"verif","enable":"go build -tags verif ./...  (the guarded files are comment-only contracts_verif.go files read by bin/govc)","baseline_off_cmd":"cd /repo && . /verif/env.sh && go test -json -vet=off -count=1 ./...","source_commits":hooks,"add_only":True},
 "engines":[{"name":"govc","path":"govc","serves_properties":sorted(claims['claimed'].keys()),"kind_free_text":"self-written verification-condition generator: symbolic execution of go/ssa (x/tools v0.29.0) of /repo's functions against //@ contracts, loops cut at invariants, calls replaced by contracts, obligations discharged by z3-new 5.1.0 / z3 4.8.12 / cvc5 1.0.3"}],
 "checks":[],"not_applicable":[],
 "notes":"All checks are contract-based deductive verification of the real code (see DESIGN.md). known_findings.jsonl lists repaired defects (fixed:) and findings."}
for p in props:
    pid=p['id']
    if pid in claims['claimed']:
        c=claims['claimed'][pid]
        m['checks'].append({"property_id":pid,"quick_cmd":"./check %s quick"%pid,"thorough_cmd":"./check %s thorough"%pid,"evidence_file":"evidence/%s.json"%pid,
          "replay_cmd_template":"./bin/govc replay {path}","engine":"govc",
          "level_claimed":{"category":c.get('category','proof'),"text":c['text'],"design_ref":c.get('design_ref','DESIGN.md section 3 / '+pid)},
          "level_note":c['note'],"technique":c.get('technique','contract-based deductive verification: WP/symbolic-execution VCs over go/ssa against //@ contracts, discharged by SMT (z3/cvc5)')})
    else:
        m['not_applicable'].append({"property_id":pid,"reason":claims['not_applicable'].get(pid,"no check registered yet: contracts for the functions this property depends on are not written")})
json.dump(m,open('MANIFEST.json','w'),indent=1)
print(len(m['checks']),'checks',len(m['not_applicable']),'n/a')

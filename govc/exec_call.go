package main

import (
	"fmt"
	"go/token"
	"go/types"
	"strings"

	"golang.org/x/tools/go/ssa"
)

const modulePrefix = "github.com/zitadel/saml"

func inModule(f *ssa.Function) bool {
	if f.Pkg != nil {
		return strings.HasPrefix(f.Pkg.Pkg.Path(), modulePrefix)
	}
	if f.Parent() != nil {
		return inModule(f.Parent())
	}
	if o := f.Object(); o != nil && o.Pkg() != nil {
		return strings.HasPrefix(o.Pkg().Path(), modulePrefix)
	}
	// synthetic wrappers (bound method closures, thunks) of module methods
	if f.Synthetic != "" && strings.Contains(f.String(), modulePrefix) {
		return true
	}
	return false
}

func (fr *Frame) call(x *ssa.Call, st *State) Value {
	return fr.doCall(x, &x.Call, st, x.Type())
}

func (fr *Frame) doCall(site ssa.Instruction, com *ssa.CallCommon, st *State, rt types.Type) Value {
	vc := fr.vc
	var args []Value
	for _, a := range com.Args {
		args = append(args, fr.get(a))
	}
	if com.IsInvoke() {
		return fr.invoke(site, com, st, args, rt)
	}
	switch f := com.Value.(type) {
	case *ssa.Builtin:
		return fr.builtin(site, f, com, st, args, rt)
	case *ssa.Function:
		return fr.callStatic(site, f, nil, args, st, rt)
	case *ssa.MakeClosure:
		fn := f.Fn.(*ssa.Function)
		var bs []Value
		for _, b := range f.Bindings {
			bs = append(bs, fr.get(b))
		}
		return fr.callStatic(site, fn, bs, args, st, rt)
	}
	// dynamic call through a function value
	fv := fr.get(com.Value).(*Term)
	vc.check(st, "nil", "call:"+fr.label(com.Value), Not(Eq(fv, IntLit(0))), site.Pos())
	return fr.callDynamic(site, fv, com.Value, args, st, rt)
}

// callDynamic dispatches over the closures known to this run; an unknown function value is an opaque call
func (fr *Frame) callDynamic(site ssa.Instruction, fv *Term, fval ssa.Value, args []Value, st *State, rt types.Type) Value {
	vc := fr.vc
	sig := fval.Type().Underlying().(*types.Signature)
	if fv.Op == "int" {
		if c := vc.closures[fv.Int]; c != nil {
			return fr.callStatic(site, c.Fn, c.Bindings, args, st, rt)
		}
	}
	// candidates
	var ids []int64
	for id, c := range vc.closures {
		if types.Identical(c.Fn.Signature.Underlying(), sig) || sameSigNoRecv(c.Fn.Signature, sig) {
			if possiblyEq(fv, id) {
				ids = append(ids, id)
			}
		}
	}
	sortInt64(ids)
	var outs []*State
	var vals []Value
	base := st.clone()
	rest := TTrue
	// several candidate callees: their outcomes are merged here, so none of them may leave a split result behind
	savedNoSplit := vc.noSplit
	vc.noSplit = true
	defer func() { vc.noSplit = savedNoSplit; vc.pendingAlt = nil; vc.pendingMore = nil }()
	for _, id := range ids {
		c := vc.closures[id]
		cond := Eq(fv, IntLit(id))
		if cond == TFalse {
			continue
		}
		bst := base.clone()
		bst.Reach = And(base.Reach, rest, cond)
		if bst.Reach == TFalse {
			continue
		}
		v := fr.callStatic(site, c.Fn, c.Bindings, args, bst, rt)
		outs = append(outs, bst)
		vals = append(vals, v)
		rest = And(rest, Not(cond))
		if cond == TTrue {
			break
		}
	}
	ost := base.clone()
	ost.Reach = And(base.Reach, rest)
	if ost.Reach != TFalse {
		v := fr.opaqueFuncCall(site, fv, sig, args, ost, rt)
		outs = append(outs, ost)
		vals = append(vals, v)
	}
	m := mergeStates(outs)
	if m == nil {
		st.Reach = TFalse
		return zeroOrFresh(rt)
	}
	var acc Value
	live := 0
	for i := len(outs) - 1; i >= 0; i-- {
		if outs[i].Reach == TFalse {
			continue
		}
		live++
		if acc == nil {
			acc = vals[i]
		} else {
			acc = iteValue(outs[i].Reach, vals[i], acc)
		}
	}
	*st = *m
	return acc
}

func zeroOrFresh(rt types.Type) Value {
	if rt == nil {
		return TupleV{}
	}
	return zeroValue(rt)
}

func sameSigNoRecv(a *types.Signature, b *types.Signature) bool {
	if a.Params().Len() != b.Params().Len() || a.Results().Len() != b.Results().Len() {
		return false
	}
	for i := 0; i < a.Params().Len(); i++ {
		if !types.Identical(a.Params().At(i).Type(), b.Params().At(i).Type()) {
			return false
		}
	}
	for i := 0; i < a.Results().Len(); i++ {
		if !types.Identical(a.Results().At(i).Type(), b.Results().At(i).Type()) {
			return false
		}
	}
	return true
}

func possiblyEq(t *Term, id int64) bool { return Eq(t, IntLit(id)) != TFalse }

func sortInt64(a []int64) {
	for i := 1; i < len(a); i++ {
		for j := i; j > 0 && a[j] < a[j-1]; j-- {
			a[j], a[j-1] = a[j-1], a[j]
		}
	}
}

// opaqueFuncCall: call of a function value the analysed code did not create (a parameter).
// It is recorded in the ghost call trace; its result is arbitrary; it may change ghost reply state
// but, by the assumption stated for closure parameters, not module memory.
func (fr *Frame) opaqueFuncCall(site ssa.Instruction, fv *Term, sig *types.Signature, args []Value, st *State, rt types.Type) Value {
	vc := fr.vc
	tn := st.ghost(vc, "tn")
	// trace event: function id
	st.Ghost["trfn"] = Store(st.ghostArr(vc, "trfn"), tn, fv)
	var res Value = TupleV{}
	if sig.Results().Len() == 1 {
		rt0 := sig.Results().At(0).Type()
		res = freshValue(rt0, "fres", vc.allocN)
		if sig.Params().Len() == 1 && kindOf(rt0) == "str" && kindOf(sig.Params().At(0).Type()) == "str" {
			// string -> string function values (the login URL builder of a service provider) are deterministic (A-GETTER)
			res = App("fnStr1", SStr, fv, args[0].(*Term))
			vc.assumed["A-GETTER: function values of type func(string) string are deterministic and effect-free"] = true
		}
		if sig.Params().Len() == 0 {
			// value getters are deterministic and effect-free (A-GETTER): their result is a function of the function value
			switch kindOf(rt0) {
			case "str":
				res = App("getStr", SStr, fv)
			case "bool":
				res = App("getBool", SBool, fv)
			case "slice":
				res = SliceV{App("getSliceBase", SRef, fv), App("getSliceLen", SInt, fv)}
				vc.wellFormed(st, res)
			case "ref":
				res = App("getRef", SRef, fv)
				// whatever the getter returns exists already
				vc.addFact(st, Lt(RootID(res.(*Term)), IntLit(vc.allocN)))
				vc.assumed["A-GETTER: parameterless function values returning a pointer are deterministic and effect-free"] = true
			}
			if _, isTerm := res.(*Term); isTerm || kindOf(rt0) == "slice" {
				if k := kindOf(rt0); k == "str" || k == "bool" || k == "slice" {
					vc.assumed["A-GETTER: parameterless function values returning string/bool/[]string are deterministic and effect-free"] = true
				}
			}
		}
	} else if sig.Results().Len() > 1 {
		res = freshValue(sig.Results(), "fres", vc.allocN)
	}
	vc.wellFormed(st, res)
	// per-function call counter
	nc := st.ghostArr(vc, "ncalls")
	st.Ghost["ncalls"] = Store(nc, fv, Add(Select(nc, fv), IntLit(1)))
	// record a scalar summary of the result: bool results and error-nilness are what the checker contracts speak about
	switch r := res.(type) {
	case *Term:
		if r.S == SBool {
			st.Ghost["trres"] = Store(st.ghostArr(vc, "trres"), tn, Ite(r, IntLit(1), IntLit(0)))
		} else if r.S == SStr {
			st.Ghost["trstr"] = Store(st.ghostArrS(vc, "trstr", SStr), tn, r)
		}
	case IfaceV:
		st.Ghost["trres"] = Store(st.ghostArr(vc, "trres"), tn, Ite(Eq(r.Tag, IntLit(0)), IntLit(0), IntLit(1)))
	case SliceV:
		st.Ghost["trslb"] = Store(st.ghostArrS(vc, "trslb", SRef), tn, r.Base)
		st.Ghost["trsll"] = Store(st.ghostArr(vc, "trsll"), tn, r.Len)
	}
	st.Ghost["tn"] = Add(tn, IntLit(1))
	vc.assumed["A-CLOSURE: function values received as parameters do not write module memory"] = true
	return res
}

func (st *State) ghost(vc *VC, name string) *Term {
	if g, ok := st.Ghost[name]; ok {
		return g
	}
	g := Var("g."+name+"@0", SInt)
	st.Ghost[name] = g
	vc.ghostEntry[name] = g
	return g
}
func (st *State) ghostArr(vc *VC, name string) *Term { return st.ghostArrS(vc, name, SInt) }
func (st *State) ghostArrS(vc *VC, name string, s *Sort) *Term {
	if g, ok := st.Ghost[name]; ok {
		return g
	}
	g := Var("g."+name+"@0", SArray(SInt, s))
	st.Ghost[name] = g
	vc.ghostEntry[name] = g
	return g
}

// callStatic: contract, inline, or library
func (fr *Frame) callStatic(site ssa.Instruction, f *ssa.Function, bindings []Value, args []Value, st *State, rt types.Type) Value {
	vc := fr.vc
	if v, ok := fr.special(site, f, args, st, rt); ok {
		return v
	}
	ct := vc.prog.contractFor(f)
	if ct != nil && ct.Inline && !vc.refute && f != vc.top && !vc.sweep && fr.appliesModular(ct) {
		return fr.applyContract(site, ct, f.Signature, f, args, st, rt)
	}
	if ct != nil && !ct.Inline && !vc.refute && (ct.Lib || f != vc.top) && !(vc.sweep && !ct.Lib) {
		return fr.applyContract(site, ct, f.Signature, f, args, st, rt)
	}
	if inModule(f) && len(f.Blocks) > 0 {
		for _, g := range vc.stack {
			if g == f {
				vc.oblige(st, "subset", "recursion/"+vc.prog.shortName(f), nil, TFalse, site.Pos())
				return freshValue(rt, "rec", vc.allocN)
			}
		}
		if len(vc.stack) > 24 {
			vc.oblige(st, "subset", "inline-depth", nil, TFalse, site.Pos())
			return freshValue(rt, "deep", vc.allocN)
		}
		vc.inlined[vc.prog.shortName(f)] = true
		return vc.execFunction(f, bindings, args, st, fr.contractForInline(f))
	}
	if ct != nil {
		return fr.applyContract(site, ct, f.Signature, f, args, st, rt)
	}
	// uncatalogued library function: arbitrary result, no effect on module memory (recorded as an assumption)
	name := vc.prog.shortName(f)
	vc.assumed["A-LIB-DEFAULT: "+name+" returns an arbitrary value, does not panic, and touches no modelled state"] = true
	for _, a := range args {
		if iv, ok := a.(IfaceV); ok {
			_ = iv
		}
	}
	if rt == nil || (kindOf(rt) == "tuple" && rt.(*types.Tuple).Len() == 0) {
		return TupleV{}
	}
	r := freshValue(rt, "lib."+f.Name(), vc.allocN)
	vc.wellFormed(st, r)
	return r
}

// appliesModular: the function under proof, or the function whose body is being executed, declares "modular <key>"
func (fr *Frame) appliesModular(ct *Contract) bool {
	for _, c := range []*Contract{fr.contract, fr.vc.contract} {
		if c == nil {
			continue
		}
		for _, m := range c.Modular {
			if m == ct.Key {
				return true
			}
		}
	}
	return false
}

func (fr *Frame) contractForInline(f *ssa.Function) *Contract {
	ct := fr.vc.prog.contractFor(f)
	return ct
}

// execFunction runs f's body on st (updated in place to the merged return state) and returns its result
func (vc *VC) execFunction(f *ssa.Function, bindings []Value, args []Value, st *State, ct *Contract) Value {
	fr := &Frame{vc: vc, fn: f, env: map[ssa.Value]Value{}, cells: map[*ssa.Alloc]*LocalCell{}, loops: vc.prog.loopsOf(f), contract: ct, entryAlloc: vc.allocN}
	fr.specEnv = map[string]SVal{}
	for i, p := range f.Params {
		fr.env[p] = args[i]
		fr.specEnv[p.Name()] = SVal{V: args[i], T: p.Type()}
	}
	for i, fv := range f.FreeVars {
		fr.env[fv] = bindings[i]
		fr.specEnv[fv.Name()] = SVal{V: bindings[i], T: fv.Type()}
	}
	fr.ghostCode(ct, "enter", st, fr.specEnv)
	fr.entry = st.clone()
	vc.stack = append(vc.stack, f)
	defer func() { vc.stack = vc.stack[:len(vc.stack)-1] }()
	e := &Edge{To: f.Blocks[0], St: st.clone(), Vals: map[ssa.Value]Value{}}
	fr.execRegion(nil, []*Edge{e}, nil)
	// a function that returns the literals true and false on different edges: keep the two groups apart
	if f.Signature.Results().Len() == 1 && kindOf(f.Signature.Results().At(0).Type()) == "bool" && !vc.noSplit {
		var tg, fg []*retEdge
		okSplit := true
		for _, r := range fr.rets {
			if r.St == nil || r.St.Reach == TFalse {
				continue
			}
			switch r.Val {
			case Value(TTrue):
				tg = append(tg, r)
			case Value(TFalse):
				fg = append(fg, r)
			default:
				okSplit = false
			}
		}
		if okSplit && len(tg) > 0 && len(fg) > 0 {
			grp := func(g []*retEdge, val *Term) *retEdge {
				var ss []*State
				for _, r := range g {
					ss = append(ss, r.St)
				}
				m := mergeStates(ss)
				for c := range m.Locals {
					if _, mine := fr.cells[c.Alloc]; mine {
						delete(m.Locals, c)
					}
				}
				if ct != nil && hasKind(ct, "leave") {
					env := map[string]SVal{}
					for k, v := range fr.specEnv {
						env[k] = v
					}
					bindResults(ct, f.Signature, val, env)
					fr.ghostCode(ct, "leave", m, env)
				}
				return &retEdge{St: m, Val: val}
			}
			if ct != nil && ct.SplitReturns && len(tg) > 1 && len(tg) <= 32 {
				// one group per "return true" edge (the failure of one particular step of a checker chain), then the false group
				a := grp(tg[:1], TTrue)
				var more []*retEdge
				for i := 1; i < len(tg); i++ {
					more = append(more, grp(tg[i:i+1], TTrue))
				}
				*st = *a.St
				vc.pendingAlt = grp(fg, TFalse)
				vc.pendingMore = more
				return a.Val
			}
			a, b := grp(tg, TTrue), grp(fg, TFalse)
			*st = *a.St
			vc.pendingAlt = b
			return a.Val
		}
	}
	var sts []*State
	for _, r := range fr.rets {
		sts = append(sts, r.St)
	}
	m := mergeStates(sts)
	if m == nil {
		st.Reach = TFalse
		if f.Signature.Results().Len() == 0 {
			return TupleV{}
		}
		if f.Signature.Results().Len() == 1 {
			return zeroValue(f.Signature.Results().At(0).Type())
		}
		return zeroValue(f.Signature.Results())
	}
	var acc Value
	var liveRets []*retEdge
	for _, r := range fr.rets {
		if r.St != nil && r.St.Reach != TFalse {
			liveRets = append(liveRets, r)
		}
	}
	var lr []*Term
	for _, r := range liveRets {
		lr = append(lr, r.St.Reach)
	}
	rel := relConds(lr)
	for i := len(liveRets) - 1; i >= 0; i-- {
		r := liveRets[i]
		if acc == nil {
			acc = r.Val
		} else {
			acc = iteValue(rel[i], r.Val, acc)
		}
	}
	// drop locals of the finished frame
	for c := range m.Locals {
		if _, mine := fr.cells[c.Alloc]; mine {
			delete(m.Locals, c)
		}
	}
	*st = *m
	if ct != nil && hasKind(ct, "leave") && acc != nil {
		env := map[string]SVal{}
		for k, v := range fr.specEnv {
			env[k] = v
		}
		bindResults(ct, f.Signature, acc, env)
		fr.ghostCode(ct, "leave", st, env)
	}
	return acc
}

// ---- contracts at call sites ----

func (fr *Frame) applyContract(site ssa.Instruction, ct *Contract, sig *types.Signature, f *ssa.Function, args []Value, st *State, rt types.Type) Value {
	vc := fr.vc
	if ct.Lib {
		a := ct.Assume
		if a == "" {
			a = "A-LIB"
		}
		vc.assumed[a+": "+ct.Key] = true
	}
	env := map[string]SVal{}
	// parameter names
	var ptypes []types.Type
	var pnames []string
	if f != nil && len(f.Params) > 0 {
		for _, p := range f.Params {
			pnames = append(pnames, p.Name())
			ptypes = append(ptypes, p.Type())
		}
	} else {
		if sig.Recv() != nil {
			pnames = append(pnames, "recv")
			ptypes = append(ptypes, sig.Recv().Type())
		}
		for i := 0; i < sig.Params().Len(); i++ {
			pnames = append(pnames, sig.Params().At(i).Name())
			ptypes = append(ptypes, sig.Params().At(i).Type())
		}
	}
	if len(ct.Params) > 0 {
		if len(ct.Params) != len(args) {
			vc.oblige(st, "subset", "contract-arity/"+ct.Key, nil, TFalse, site.Pos())
		} else {
			pnames = ct.Params
		}
	}
	for i := range args {
		if i < len(pnames) && i < len(ptypes) {
			env[pnames[i]] = SVal{V: args[i], T: ptypes[i]}
		}
	}
	// a contract that speaks about the order of a map iteration inside the callee: an order token of the callee's own
	env["$mtok"] = SVal{V: Var(freshName("mtok@call"), SInt), T: intT}
	pre := st.clone()
	fr.curCallEnv = env
	ev := &SpecEval{vc: vc, fr: fr, names: env, cur: pre, old: pre}
	for _, cl := range ct.Clauses {
		if cl.Kind != "requires" {
			continue
		}
		t := ev.evalBool(cl.Expr)
		vc.oblige(st, "pre", ct.Key+"/"+cl.Label, ct.clauseProps(cl), t, site.Pos())
		vc.addFact(st, t)
	}
	fr.ghostCode(ct, "enter", st, env)
	// havoc the frame
	fr.havocAssigns(ct, st)
	// results
	var res Value = TupleV{}
	var rtypes []types.Type
	for i := 0; i < sig.Results().Len(); i++ {
		rtypes = append(rtypes, sig.Results().At(i).Type())
	}
	rnames := ct.Results
	if len(rnames) == 0 {
		for i := range rtypes {
			if n := sig.Results().At(i).Name(); n != "" && n != "_" {
				rnames = append(rnames, n)
			} else if len(rtypes) == 1 {
				rnames = append(rnames, "result")
			} else {
				rnames = append(rnames, fmt.Sprintf("result%d", i))
			}
		}
	}
	isFresh := func(n string) bool {
		for _, x := range ct.Fresh {
			if x == n {
				return true
			}
		}
		return false
	}
	var rvals []Value
	for i, t := range rtypes {
		var v Value
		n := "r"
		if i < len(rnames) {
			n = rnames[i]
		}
		if isFresh(n) && kindOf(t) == "ref" {
			v = vc.alloc()
		} else if isFresh(n) && kindOf(t) == "iface" {
			tag := Var(freshName("ret."+n+".t"), SInt)
			vc.addFact(st, Lt(IntLit(0), tag))
			v = IfaceV{tag, vc.alloc()}
		} else if isFresh(n) && kindOf(t) == "slice" {
			v = SliceV{vc.alloc(), Var(freshName("ret."+n+".l"), SInt)}
		} else if ct.isForeign(n) && kindOf(t) == "ref" {
			v = VarForeign(freshName("ret."+n), vc.allocN+1, 1, vc.allocN-1)
		} else if ct.isForeign(n) && kindOf(t) == "iface" {
			v = IfaceV{Var(freshName("ret."+n+".t"), SInt), VarForeign(freshName("ret."+n+".v"), vc.allocN+1, 1, vc.allocN-1)}
		} else {
			v = freshValue(t, "ret."+n, vc.allocN+1)
		}
		vc.wellFormed(st, v)
		rvals = append(rvals, v)
		if i < len(rnames) {
			env[rnames[i]] = SVal{V: v, T: t}
		}
	}
	if len(rtypes) == 1 {
		env["result"] = SVal{V: rvals[0], T: rtypes[0]}
		res = rvals[0]
	} else if len(rtypes) > 1 {
		res = TupleV(rvals)
	}
	// the callee may allocate: anything it allocated belongs to a reserved family
	vc.allocN++
	ev = &SpecEval{vc: vc, fr: fr, names: env, cur: st, old: pre}
	for _, cl := range ct.Clauses {
		if cl.Kind != "ensures" {
			continue
		}
		if rest := fr.assignGhosts(ct, ev, st, cl.Expr, TTrue); rest != nil {
			vc.addFact(st, ev.evalBool(rest))
		}
	}
	fr.ghostCode(ct, "leave", st, env)
	return res
}

// assignGhosts turns ensures conjuncts of the form  g == rhs  /  cond ==> g == rhs  (g an assigned ghost variable)
// into direct updates of the ghost state instead of equations over a havoced value; returns what is left to assume.
func (fr *Frame) assignGhosts(ct *Contract, ev *SpecEval, st *State, e *SExpr, cond *Term) *SExpr {
	isAssignedGhost := func(x *SExpr) bool {
		if x.Kind != "ident" {
			return false
		}
		if _, ok := fr.vc.prog.specs.Ghost[x.Name]; !ok {
			return false
		}
		for _, a := range ct.Assigns {
			if a == x.Name {
				return true
			}
		}
		return false
	}
	switch {
	case e.Kind == "binary" && e.Name == "&&":
		l := fr.assignGhosts(ct, ev, st, e.Args[0], cond)
		r := fr.assignGhosts(ct, ev, st, e.Args[1], cond)
		if l == nil {
			return r
		}
		if r == nil {
			return l
		}
		return &SExpr{Kind: "binary", Name: "&&", Args: []*SExpr{l, r}}
	case e.Kind == "binary" && e.Name == "==" && isAssignedGhost(e.Args[0]):
		rhs := ev.term(e.Args[1])
		if _, hi := rootRange(rhs); rhs.S == SRef && hi == noBound {
			// a reference of unknown age (an uninterpreted function value): keep the havoced register, whose age is
			// bounded, and assume the equation instead, so that later frame reasoning about the register stays decidable
			return e
		}
		cur := st.Ghost[e.Args[0].Name]
		if cur == nil {
			cur = st.ghostVar(fr.vc, fr.vc.prog.specs.Ghost[e.Args[0].Name])
		}
		st.Ghost[e.Args[0].Name] = Ite(cond, rhs, cur)
		return nil
	case e.Kind == "binary" && e.Name == "==>" && cond == TTrue:
		// only one level of guarding
		if containsGhostAssign(e.Args[1], isAssignedGhost) {
			c := ev.evalBool(e.Args[0])
			rest := fr.assignGhosts(ct, ev, st, e.Args[1], c)
			if rest == nil {
				return nil
			}
			return &SExpr{Kind: "binary", Name: "==>", Args: []*SExpr{e.Args[0], rest}}
		}
	}
	return e
}

func containsGhostAssign(e *SExpr, is func(*SExpr) bool) bool {
	if e.Kind == "binary" && e.Name == "&&" {
		return containsGhostAssign(e.Args[0], is) || containsGhostAssign(e.Args[1], is)
	}
	return e.Kind == "binary" && e.Name == "==" && is(e.Args[0])
}

func (fr *Frame) havocAssigns(ct *Contract, st *State) {
	vc := fr.vc
	if ct.Assigns == nil && ct.Lib {
		return // library contracts: nothing unless stated
	}
	if !ct.Lib {
		// a module function may allocate and initialise fresh memory
		for k, h := range st.Heap {
			st.Heap[k] = HavocAbove(h, vc.allocN, VarB(freshName(k+"@call"), h.S, vc.allocN+1))
		}
	}
	for _, a := range ct.Assigns {
		switch {
		case a == "*":
			st.ghost(vc, "msgver")
			for k, h := range st.Heap {
				st.Heap[k] = VarB(freshName(k+"@call"), h.S, vc.allocN+1)
			}
			for g, t := range st.Ghost {
				st.Ghost[g] = Var(freshName("g."+g+"@call"), t.S)
			}
		case a == "fresh":
			for k, h := range st.Heap {
				st.Heap[k] = HavocAbove(h, vc.allocN, fr.calleeArray(ct, k+"@call", h.S))
			}
		case strings.HasPrefix(a, "obj:"):
			// every cell of the object a parameter refers to (and of its nested parts)
			v, ok := fr.curCallEnv[strings.TrimPrefix(a, "obj:")]
			if !ok {
				vc.warn("assigns %s: no such parameter in %s", a, ct.Key)
				continue
			}
			var ref *Term
			switch x := v.V.(type) {
			case *Term:
				ref = x
			case IfaceV:
				ref = x.Val
			}
			lo, hi := noBound, noBound
			if ref != nil {
				lo, hi = rootRange(ref)
			}
			if ref == nil || lo != hi || lo == noBound {
				// unknown object: fall back to havocing everything
				vc.warn("assigns %s in %s: object not statically known, whole heap havoced", a, ct.Key)
				for k, h := range st.Heap {
					st.Heap[k] = VarB(freshName(k+"@call"), h.S, vc.allocN+1)
				}
				continue
			}
			// only the arrays that hold cells of this object's own type can contain cells of its allocation family
			var objKeys map[string]bool
			var ot types.Type
			switch x := v.V.(type) {
			case *Term:
				ot = v.T
			case IfaceV:
				if x.Tag.Op == "int" {
					ot = typeTagTypes[x.Tag.Int]
				}
			}
			isMsg := true
			if ot != nil {
				if pt, ok := ot.Underlying().(*types.Pointer); ok && kindOf(pt.Elem()) == "struct" {
					objKeys = map[string]bool{}
					fr.keysOfType(pt.Elem(), objKeys)
					isMsg = messageValueType(pt.Elem())
				}
			}
			if isMsg {
				// filling an XML message object changes the message version
				st.Ghost["msgver"] = Add(st.ghost(vc, "msgver"), IntLit(1))
			}
			for k, h := range st.Heap {
				if objKeys != nil && !objKeys[k] {
					continue
				}
				nv := fr.calleeArray(ct, k+"@obj", h.S)
				st.Heap[k] = HavocFam(h, lo, nv)
			}
			for k := range objKeys {
				if _, have := st.Heap[k]; !have {
					h := st.heapGet(k)
					st.Heap[k] = HavocFam(h, lo, fr.calleeArray(ct, k+"@obj", h.S))
				}
			}
		case strings.HasPrefix(a, "C:") || strings.HasPrefix(a, "M:"):
			h := st.heapGet(a)
			st.Heap[a] = VarB(freshName(a+"@call"), h.S, vc.allocN+1)
		default:
			// ghost variable
			if gd, ok := vc.prog.specs.Ghost[a]; ok {
				if gd.S == SRef {
					// a reference register: whatever it names exists when the call returns
					st.Ghost[a] = VarB(freshName("g."+a+"@call"), gd.S, vc.allocN+1)
				} else {
					st.Ghost[a] = Var(freshName("g."+a+"@call"), gd.S)
				}
			} else {
				vc.warn("unknown assigns target %s in %s", a, ct.Key)
			}
		}
	}
}

// frameCheck: a store performed while proving a function whose contract is used modularly must stay inside its frame
func (fr *Frame) frameCheck(st *State, addr *Term, t types.Type, label string, pos token.Pos) {
	vc := fr.vc
	ct := vc.contract
	if ct != nil && ct.WritesFresh && !vc.sweep && !vc.refute {
		// ownership discipline of a request handler: nothing that existed before the call is written
		vc.oblige(st, "frame", "shared-write:"+label, ct.WritesProps, Le(IntLit(1), RootID(addr)), pos)
		return
	}
	if ct == nil || (ct.Inline && !ct.UsedModular) || vc.sweep || vc.refute {
		return
	}
	for _, a := range ct.Assigns {
		if a == "*" {
			return
		}
	}
	allowed := map[string]bool{}
	for _, a := range ct.Assigns {
		allowed[a] = true
	}
	keys := map[string]bool{}
	fr.keysOfType(t, keys)
	all := true
	for k := range keys {
		if !allowed[k] {
			all = false
		}
	}
	if all {
		return
	}
	vc.oblige(st, "frame", "store:"+label, ct.allProps(), Le(IntLit(1), RootID(addr)), pos)
}

// ---- interface method calls ----

func (fr *Frame) invoke(site ssa.Instruction, com *ssa.CallCommon, st *State, args []Value, rt types.Type) Value {
	vc := fr.vc
	recv := fr.get(com.Value).(IfaceV)
	vc.check(st, "nil", "invoke:"+fr.label(com.Value)+"."+com.Method.Name(), Not(Eq(recv.Tag, IntLit(0))), site.Pos())
	mname := com.Method.Name()
	// known dynamic type: static dispatch
	if recv.Tag.Op == "int" {
		if t, ok := typeTagTypes[recv.Tag.Int]; ok {
			if m := vc.prog.methodOf(t, com.Method); m != nil && inModule(m) {
				rv := fr.unbox(st, recv, t)
				return fr.callStatic(site, m, nil, append([]Value{rv}, args...), st, rt)
			}
		}
	}
	if mname == "Error" && com.Method.Type().(*types.Signature).Params().Len() == 0 && kindOf(rt) == "str" {
		return App("errmsg", SStr, recv.Val)
	}
	it := typeKey(com.Value.Type())
	for _, key := range []string{"invoke " + it + "." + mname, "invoke " + mname} {
		if ct := vc.prog.specs.Contracts[key]; ct != nil {
			sig := com.Method.Type().(*types.Signature)
			sig2 := types.NewSignatureType(types.NewVar(token.NoPos, nil, "recv", com.Value.Type()), nil, nil, sig.Params(), sig.Results(), sig.Variadic())
			return fr.applyContract(site, ct, sig2, nil, append([]Value{recv}, args...), st, rt)
		}
	}
	vc.assumed["A-LIB-DEFAULT: method "+it+"."+mname+" returns an arbitrary value, does not panic, and touches no modelled state"] = true
	if rt == nil || (kindOf(rt) == "tuple" && rt.(*types.Tuple).Len() == 0) {
		return TupleV{}
	}
	r := freshValue(rt, "inv."+mname, vc.allocN)
	vc.wellFormed(st, r)
	return r
}

// ---- builtins ----

func (fr *Frame) builtin(site ssa.Instruction, b *ssa.Builtin, com *ssa.CallCommon, st *State, args []Value, rt types.Type) Value {
	vc := fr.vc
	switch b.Name() {
	case "len":
		switch a := args[0].(type) {
		case SliceV:
			return a.Len
		case *Term:
			if a.S == SStr {
				return StrLen(a)
			}
			if a.S == SRef { // map
				n := App("maplen", SInt, a)
				vc.addFact(st, Le(IntLit(0), n))
				return n
			}
		}
	case "cap":
		if a, ok := args[0].(SliceV); ok {
			c := App("capof", SInt, a.Base, a.Len)
			vc.addFact(st, Le(a.Len, c))
			return c
		}
	case "append":
		return fr.appendOp(site, com, st, args)
	case "panic":
		vc.oblige(st, "panic", "explicit-panic", nil, TFalse, site.Pos())
		st.Reach = TFalse
		return TupleV{}
	case "print", "println":
		return TupleV{}
	}
	vc.oblige(st, "subset", "builtin/"+b.Name(), nil, TFalse, site.Pos())
	if rt == nil {
		return TupleV{}
	}
	return freshValue(rt, "builtin", vc.allocN)
}

func (fr *Frame) appendOp(site ssa.Instruction, com *ssa.CallCommon, st *State, args []Value) Value {
	vc := fr.vc
	s := args[0].(SliceV)
	et := com.Args[0].Type().Underlying().(*types.Slice).Elem()
	var add SliceV
	switch a := args[1].(type) {
	case SliceV:
		add = a
	case *Term: // append([]byte, string...)
		r := vc.alloc()
		return SliceV{r, Add(s.Len, StrLen(a))}
	}
	if kindOf(et) == "int" && typeKey(et) == "byte" || typeKey(et) == "uint8" {
		// byte slices are modelled by their content as a whole
		r := vc.alloc()
		st.Heap["C:bytes"] = Store(st.heapGet("C:bytes"), r, Concat(Select(st.heapGet("C:bytes"), s.Base), Select(st.heapGet("C:bytes"), add.Base)))
		return SliceV{r, Add(s.Len, add.Len)}
	}
	nb := vc.alloc()
	nl := Add(s.Len, add.Len)
	if s.Len.Op == "int" && add.Len.Op == "int" && s.Len.Int+add.Len.Int <= 128 {
		for i := int64(0); i < s.Len.Int; i++ {
			st.store(Elem(nb, IntLit(i)), et, st.load(Elem(s.Base, IntLit(i)), et))
		}
		for i := int64(0); i < add.Len.Int; i++ {
			st.store(Elem(nb, IntLit(s.Len.Int+i)), et, st.load(Elem(add.Base, IntLit(i)), et))
		}
		return SliceV{nb, nl}
	}
	// lengths that are small case distinctions (ite over literals): copy cell by cell up to the largest case
	if mx, ok := maxLit(s.Len); ok && mx <= 16 {
		if amx, ok2 := maxLit(add.Len); ok2 && amx <= 4 {
			for i := int64(0); i < mx; i++ {
				st.store(Elem(nb, IntLit(i)), et, st.load(Elem(s.Base, IntLit(i)), et))
			}
			for i := int64(0); i < amx; i++ {
				st.store(Elem(nb, Add(s.Len, IntLit(i))), et, st.load(Elem(add.Base, IntLit(i)), et))
			}
			vc.addFact(st, Le(IntLit(0), s.Len))
			return SliceV{nb, nl}
		}
	}
	// symbolic lengths: the new backing array agrees with the old elements (quantified facts per scalar cell)
	fr.copyFacts(st, nb, IntLit(0), s.Base, IntLit(0), s.Len, et)
	if add.Len.Op == "int" && add.Len.Int <= 16 {
		for i := int64(0); i < add.Len.Int; i++ {
			st.store(Elem(nb, Add(s.Len, IntLit(i))), et, st.load(Elem(add.Base, IntLit(i)), et))
		}
	} else {
		fr.copyFacts(st, nb, s.Len, add.Base, IntLit(0), add.Len, et)
	}
	vc.addFact(st, Le(IntLit(0), s.Len))
	return SliceV{nb, nl}
}

// copyFacts: forall j in [0,n): cell(dst, doff+j) == cell(src, soff+j), for every scalar cell of the element type.
// The destination is fresh, so the facts are stated on the current heap arrays (the stores that follow keep them
// for other indices by the array axioms).
func (fr *Frame) copyFacts(st *State, dst, doff, src, soff, n *Term, et types.Type) {
	j := BoundVar("j!c", SInt)
	var rec func(d, s *Term, t types.Type)
	rec = func(d, s *Term, t types.Type) {
		if kindOf(t) == "struct" {
			stt := t.Underlying().(*types.Struct)
			for i := 0; i < stt.NumFields(); i++ {
				rec(Sub(d, fieldID(t, i)), Sub(s, fieldID(t, i)), stt.Field(i).Type())
			}
			return
		}
		keys, _ := cellKeys(t)
		for _, k := range keys {
			h := st.heapGet(k)
			// new array version whose fresh cells equal the source cells
			nh := VarB(freshName(k+"@copy"), h.S, contentBoundOr(h, fr.vc.allocN))
			st.Heap[k] = HavocAbove(h, RootLit(dst), nh)
			fr.vc.addFact(st, Forall([]*Term{j}, Implies(And(Le(IntLit(0), j), Lt(j, n)),
				Eq(Select(st.Heap[k], substElem(d, dst, Add(doff, j))), Select(h, substElem(s, src, Add(soff, j)))))))
		}
	}
	rec(Elem(dst, IntLit(-777)), Elem(src, IntLit(-777)), et)
}

func contentBoundOr(h *Term, n int64) int64 {
	if b := contentBound(h); b != 0 {
		return max64(b, n)
	}
	return 0
}

func RootLit(obj *Term) int64 {
	lo, hi := rootRange(obj)
	if lo == hi && lo != noBound {
		return lo
	}
	panic("RootLit: not a literal object")
}

// substElem replaces the placeholder index -777 by idx in an address built over Elem(base, -777)
func substElem(addr, base, idx *Term) *Term {
	return Subst(addr, map[*Term]*Term{Elem(base, IntLit(-777)): Elem(base, idx)})
}

// ---- defer ----

func (fr *Frame) deferCall(x *ssa.Defer, st *State) {
	flag := fmt.Sprintf("defer:%s:%d", fr.fn.Name(), len(fr.defers))
	for _, d := range fr.defers {
		if d.call == x {
			flag = d.flag
		}
	}
	found := false
	for _, d := range fr.defers {
		if d.call == x {
			found = true
		}
	}
	if !found {
		fr.defers = append(fr.defers, &deferred{flag: flag, call: x})
	}
	// capture argument values now
	var args []Value
	for _, a := range x.Call.Args {
		args = append(args, fr.get(a))
	}
	_ = args
	st.Ghost[flag] = IntLit(1)
}

func (fr *Frame) runDefers(st *State) {
	for i := len(fr.defers) - 1; i >= 0; i-- {
		d := fr.defers[i]
		flag, ok := st.Ghost[d.flag]
		if !ok || flag == IntLit(0) {
			continue
		}
		cond := Eq(flag, IntLit(1))
		if cond == TFalse {
			continue
		}
		bst := st.clone()
		bst.Reach = And(st.Reach, cond)
		fr.doCall(d.call, &d.call.Call, bst, nil)
		rest := st.clone()
		rest.Reach = And(st.Reach, Not(cond))
		m := mergeStates([]*State{bst, rest})
		if m != nil {
			*st = *m
		}
		delete(st.Ghost, d.flag)
	}
}

// maxLit: the largest value of an ite-tree whose leaves are all integer literals
func maxLit(t *Term) (int64, bool) {
	switch t.Op {
	case "int":
		return t.Int, true
	case "ite":
		a, ok1 := maxLit(t.Args[1])
		b, ok2 := maxLit(t.Args[2])
		if ok1 && ok2 {
			return max64(a, b), true
		}
	case "+":
		a, ok1 := maxLit(t.Args[0])
		b, ok2 := maxLit(t.Args[1])
		if ok1 && ok2 {
			return a + b, true
		}
	}
	return 0, false
}

// ghostCode runs the "enter" / "leave" ghost assignments of a contract on st (names: parameters, and results for leave)
func (fr *Frame) ghostCode(ct *Contract, kind string, st *State, names map[string]SVal) {
	if ct == nil {
		return
	}
	for _, cl := range ct.Clauses {
		if cl.Kind != kind {
			continue
		}
		gd, ok := fr.vc.prog.specs.Ghost[cl.Label]
		if !ok {
			fr.vc.warn("%s: %s of unknown ghost %s", ct.Key, kind, cl.Label)
			continue
		}
		ev := &SpecEval{vc: fr.vc, fr: fr, names: names, cur: st, old: st}
		v := ev.rvalue(ev.eval(cl.Expr))
		var t *Term
		switch x := v.(type) {
		case *Term:
			t = x
		case IfaceV:
			t = x.Val
		case SliceV:
			t = x.Base
		}
		if t == nil || t.S != gd.S {
			fr.vc.warn("%s: %s %s: value of wrong sort", ct.Key, kind, cl.Label)
			continue
		}
		st.ghostVar(fr.vc, gd)
		st.Ghost[cl.Label] = t
	}
}

func resultNames(ct *Contract, sig *types.Signature) []string {
	var rn []string
	for i := 0; i < sig.Results().Len(); i++ {
		name := fmt.Sprintf("result%d", i)
		if ct != nil && i < len(ct.Results) {
			name = ct.Results[i]
		} else if n := sig.Results().At(i).Name(); n != "" && n != "_" {
			name = n
		} else if sig.Results().Len() == 1 {
			name = "result"
		}
		rn = append(rn, name)
	}
	return rn
}

func bindResults(ct *Contract, sig *types.Signature, res Value, env map[string]SVal) {
	rn := resultNames(ct, sig)
	switch sig.Results().Len() {
	case 0:
	case 1:
		env[rn[0]] = SVal{V: res, T: sig.Results().At(0).Type()}
		env["result"] = SVal{V: res, T: sig.Results().At(0).Type()}
	default:
		for i, v := range res.(TupleV) {
			env[rn[i]] = SVal{V: v, T: sig.Results().At(i).Type()}
		}
	}
}

// calleeArray: the unknown content a callee leaves in memory it fills. What a LIBRARY callee (decoder, storage) links in is
// nil, its own fresh allocations or objects of its own from before this request - never an object the calling function
// allocated itself (assumption A-XML / A-STORAGE: "the decoded tree is fresh", "storage does not keep our objects").
func (fr *Frame) calleeArray(ct *Contract, name string, s *Sort) *Term {
	n := fr.vc.allocN
	if ct.Lib && n > 1 {
		return VarBGap(freshName(name), s, n+1, 1, n-1)
	}
	return VarB(freshName(name), s, n+1)
}

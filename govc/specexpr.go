package main

// Spec expression language: tokenizer + Pratt parser.
//   e ::= forall x, y :: e | exists x :: e | e <==> e | e ==> e | e || e | e && e | e (==|!=|<|<=|>|>=) e
//       | e + e | e - e | e * e | !e | -e | e.f | e[i] | f(args) | old(e) | c ? a : b | ident | int | "str" | (e)

import (
	"fmt"
	"strconv"
	"strings"
)

type SExpr struct {
	Kind string // ident int str unary binary call field index quant cond
	Name string // ident name, operator, field name, callee name, quantifier
	Int  int64
	Args []*SExpr
	Vars []string
	Pos  string
}

func (e *SExpr) String() string {
	switch e.Kind {
	case "ident":
		return e.Name
	case "int":
		return strconv.FormatInt(e.Int, 10)
	case "str":
		return strconv.Quote(e.Name)
	case "unary":
		return e.Name + e.Args[0].String()
	case "binary":
		return "(" + e.Args[0].String() + " " + e.Name + " " + e.Args[1].String() + ")"
	case "call":
		var as []string
		for _, a := range e.Args {
			as = append(as, a.String())
		}
		return e.Name + "(" + strings.Join(as, ", ") + ")"
	case "field":
		return e.Args[0].String() + "." + e.Name
	case "index":
		return e.Args[0].String() + "[" + e.Args[1].String() + "]"
	case "quant":
		return "(" + e.Name + " " + strings.Join(e.Vars, ", ") + " :: " + e.Args[0].String() + ")"
	case "cond":
		return "(" + e.Args[0].String() + " ? " + e.Args[1].String() + " : " + e.Args[2].String() + ")"
	}
	return "?"
}

type tok struct {
	k string // id int str op eof
	s string
}

func tokenize(src string) ([]tok, error) {
	var out []tok
	i := 0
	isIdStart := func(c byte) bool {
		return c == '_' || c == '$' || c == '#' || c >= 'a' && c <= 'z' || c >= 'A' && c <= 'Z'
	}
	isId := func(c byte) bool { return isIdStart(c) || c >= '0' && c <= '9' || c == '~' }
	for i < len(src) {
		c := src[i]
		switch {
		case c == ' ' || c == '\t' || c == '\n' || c == '\r':
			i++
		case isIdStart(c):
			j := i + 1
			for j < len(src) && isId(src[j]) {
				j++
			}
			out = append(out, tok{"id", src[i:j]})
			i = j
		case c >= '0' && c <= '9':
			j := i + 1
			for j < len(src) && src[j] >= '0' && src[j] <= '9' {
				j++
			}
			out = append(out, tok{"int", src[i:j]})
			i = j
		case c == '"':
			j := i + 1
			for j < len(src) && src[j] != '"' {
				if src[j] == '\\' {
					j++
				}
				j++
			}
			if j >= len(src) {
				return nil, fmt.Errorf("unterminated string")
			}
			v, err := strconv.Unquote(src[i : j+1])
			if err != nil {
				return nil, err
			}
			out = append(out, tok{"str", v})
			i = j + 1
		default:
			ops := []string{"<==>", "==>", "::", "==", "!=", "<=", ">=", "&&", "||", "<", ">", "+", "-", "*", "!", ".", "[", "]", "(", ")", ",", "?", ":"}
			matched := false
			for _, op := range ops {
				if strings.HasPrefix(src[i:], op) {
					out = append(out, tok{"op", op})
					i += len(op)
					matched = true
					break
				}
			}
			if !matched {
				return nil, fmt.Errorf("unexpected character %q in %q", c, src)
			}
		}
	}
	out = append(out, tok{"eof", ""})
	return out, nil
}

type sparser struct {
	toks []tok
	p    int
	src  string
}

func parseSpecExpr(src string) (e *SExpr, err error) {
	toks, err := tokenize(src)
	if err != nil {
		return nil, err
	}
	ps := &sparser{toks: toks, src: src}
	defer func() {
		if r := recover(); r != nil {
			err = fmt.Errorf("spec parse error in %q: %v", src, r)
		}
	}()
	e = ps.expr(0)
	if ps.peek().k != "eof" {
		panic(fmt.Sprintf("unexpected %q", ps.peek().s))
	}
	return e, nil
}

func (p *sparser) peek() tok { return p.toks[p.p] }
func (p *sparser) next() tok  { t := p.toks[p.p]; p.p++; return t }
func (p *sparser) isOp(s string) bool {
	t := p.peek()
	return t.k == "op" && t.s == s
}
func (p *sparser) expect(s string) {
	if !p.isOp(s) {
		panic(fmt.Sprintf("expected %q, found %q", s, p.peek().s))
	}
	p.next()
}

var binPrec = map[string]int{
	"<==>": 1, "==>": 2, "||": 3, "&&": 4,
	"==": 5, "!=": 5, "<": 5, "<=": 5, ">": 5, ">=": 5,
	"+": 6, "-": 6, "*": 7,
}

func (p *sparser) expr(minPrec int) *SExpr {
	lhs := p.unary()
	for {
		t := p.peek()
		if t.k != "op" {
			break
		}
		if t.s == "?" && minPrec <= 0 {
			p.next()
			a := p.expr(0)
			p.expect(":")
			b := p.expr(0)
			lhs = &SExpr{Kind: "cond", Args: []*SExpr{lhs, a, b}}
			continue
		}
		prec, ok := binPrec[t.s]
		if !ok || prec < minPrec {
			break
		}
		p.next()
		var rhs *SExpr
		if t.s == "==>" {
			rhs = p.expr(prec) // right associative
		} else {
			rhs = p.expr(prec + 1)
		}
		lhs = &SExpr{Kind: "binary", Name: t.s, Args: []*SExpr{lhs, rhs}}
	}
	return lhs
}

func (p *sparser) unary() *SExpr {
	t := p.peek()
	if t.k == "op" && (t.s == "!" || t.s == "-") {
		p.next()
		return &SExpr{Kind: "unary", Name: t.s, Args: []*SExpr{p.unary()}}
	}
	if t.k == "id" && (t.s == "forall" || t.s == "exists") {
		p.next()
		var vars []string
		for {
			v := p.next()
			if v.k != "id" {
				panic("bound variable expected")
			}
			vars = append(vars, v.s)
			if p.isOp(",") {
				p.next()
				continue
			}
			break
		}
		p.expect("::")
		body := p.expr(0)
		return &SExpr{Kind: "quant", Name: t.s, Vars: vars, Args: []*SExpr{body}}
	}
	return p.postfix(p.primary())
}

func (p *sparser) primary() *SExpr {
	t := p.next()
	switch t.k {
	case "int":
		v, _ := strconv.ParseInt(t.s, 10, 64)
		return &SExpr{Kind: "int", Int: v}
	case "str":
		return &SExpr{Kind: "str", Name: t.s}
	case "id":
		if p.isOp("(") {
			p.next()
			var args []*SExpr
			if !p.isOp(")") {
				for {
					args = append(args, p.expr(0))
					if p.isOp(",") {
						p.next()
						continue
					}
					break
				}
			}
			p.expect(")")
			return &SExpr{Kind: "call", Name: t.s, Args: args}
		}
		return &SExpr{Kind: "ident", Name: t.s}
	case "op":
		if t.s == "(" {
			e := p.expr(0)
			p.expect(")")
			return e
		}
	}
	panic(fmt.Sprintf("unexpected token %q", t.s))
}

func (p *sparser) postfix(e *SExpr) *SExpr {
	for {
		if p.isOp(".") {
			p.next()
			f := p.next()
			if f.k != "id" {
				panic("field name expected")
			}
			e = &SExpr{Kind: "field", Name: f.s, Args: []*SExpr{e}}
			continue
		}
		if p.isOp("[") {
			p.next()
			i := p.expr(0)
			p.expect("]")
			e = &SExpr{Kind: "index", Args: []*SExpr{e, i}}
			continue
		}
		return e
	}
}

package main

import (
	"sync/atomic"
	"context"
	"fmt"
	"go/types"
	"os"
	"os/exec"
	"path/filepath"
	"runtime/debug"
	"strings"
	"sync"
	"time"

	"golang.org/x/tools/go/ssa"
)

// verifyFunction generates the obligations of f against its contract (ct may be nil in sweep mode)
func (p *Program) verifyFunction(f *ssa.Function, ct *Contract, sweep, refute bool) (vc *VC, err error) {
	return p.verifyFunctionOpt(f, ct, sweep, refute, 0)
}

// verifyFunctionOpt: unroll > 0 sets the loop unrolling bound (refutation mode)
func (p *Program) verifyFunctionOpt(f *ssa.Function, ct *Contract, sweep, refute bool, unroll int) (vc *VC, err error) {
	vc = newVC(p, f)
	if unroll > 0 {
		vc.unrollLimit = unroll
	}
	vc.contract = ct
	vc.sweep = sweep
	vc.refute = refute
	startTerms, startTime := termCount, time.Now()
	termBudgetCheck = func() {
		if termCount-startTerms > 1500000 || time.Since(startTime) > 120*time.Second {
			panic(fmt.Sprintf("resource budget exceeded while generating obligations (%d terms, %.0fs): the function is outside what the engine can decide", termCount-startTerms, time.Since(startTime).Seconds()))
		}
	}
	defer func() {
		termBudgetCheck = nil
		if r := recover(); r != nil {
			err = fmt.Errorf("%s: engine failure: %v\n%s", p.shortName(f), r, firstLines(string(debug.Stack()), 12))
		}
	}()
	st := newState()
	for _, k := range p.heapKeyUniverse() {
		st.heapGet(k)
	}
	var args []Value
	env := map[string]SVal{}
	for _, prm := range f.Params {
		v := freshValue(prm.Type(), "p."+prm.Name(), 1)
		args = append(args, v)
		env[prm.Name()] = SVal{V: v, T: prm.Type()}
	}
	var binds []Value
	for _, fv := range f.FreeVars {
		v := freshValue(fv.Type(), "fv."+fv.Name(), 1)
		binds = append(binds, v)
		env[fv.Name()] = SVal{V: v, T: fv.Type()}
		if t, ok := v.(*Term); ok && t.S == SRef {
			// captured variables are bound by reference to their (always allocated) cell
			vc.facts = append(vc.facts, Not(Eq(t, TNil)))
		}
	}
	for _, t := range p.globalInitFacts(st) {
		vc.facts = append(vc.facts, t)
	}
	// well-formedness of inputs: lengths are non-negative, nil slices are empty
	for _, a := range args {
		vc.wellFormed(st, a)
	}
	pre := st.clone()
	vc.paramVals = args
	vc.preState = pre
	fr0 := &Frame{vc: vc, fn: f, env: map[ssa.Value]Value{}, specEnv: env, contract: ct}
	for i, prm := range f.Params {
		fr0.env[prm] = args[i]
	}
	if ct != nil {
		ev := &SpecEval{vc: vc, fr: fr0, names: env, cur: st, old: st}
		for _, cl := range ct.Clauses {
			if cl.Kind == "requires" {
				vc.addFact(st, ev.evalBool(cl.Expr))
			}
		}
		// vacuity guard: the precondition must be satisfiable
		if hasKind(ct, "requires") {
			vc.obls = append(vc.obls, &Obligation{Name: p.shortName(f) + "/cover/requires-satisfiable", Kind: "cover", Props: ct.allProps(), Goal: TFalse, Reach: TTrue, NFacts: len(vc.facts), Fn: f.String(), Expect: "sat"})
		}
	}
	fr0.ghostCode(ct, "enter", st, env)
	res := vc.execTop(f, binds, args, st, ct, env)
	if ct != nil && st.Reach != TFalse {
		if vc.topFrame != nil {
			// clauses are evaluated in the frame that executed the body, so that they can name its local variables (#x)
			vc.topFrame.specEnv = env
			fr0 = vc.topFrame
		}
		// results
		sig := f.Signature
		rn := ct.Results
		var rvals []Value
		switch sig.Results().Len() {
		case 0:
		case 1:
			rvals = []Value{res}
		default:
			rvals = []Value(res.(TupleV))
		}
		for i, v := range rvals {
			t := sig.Results().At(i).Type()
			name := fmt.Sprintf("result%d", i)
			if i < len(rn) {
				name = rn[i]
			} else if n := sig.Results().At(i).Name(); n != "" && n != "_" {
				name = n
			}
			env[name] = SVal{V: v, T: t}
			if len(rvals) == 1 {
				env["result"] = SVal{V: v, T: t}
			}
		}
		fr0.ghostCode(ct, "leave", st, env)
		ev := &SpecEval{vc: vc, fr: fr0, names: env, cur: st, old: pre}
		if !sweep {
			// postconditions are checked on every return edge separately (the state of one exit is much simpler than
			// the merge of all of them); canaries, covers and frames use the merged exit state
			var exits []*SpecEval
			if len(vc.topRets) > 1 {
				for _, r := range vc.topRets {
					if r.St == nil || r.St.Reach == TFalse {
						continue
					}
					renv := map[string]SVal{}
					for k, v := range env {
						renv[k] = v
					}
					bindResults(ct, sig, r.Val, renv)
					rst := r.St.clone()
					fr0.ghostCode(ct, "leave", rst, renv)
					exits = append(exits, &SpecEval{vc: vc, fr: fr0, names: renv, cur: rst, old: pre})
				}
			}
			for _, cl := range ct.Clauses {
				if cl.Kind == "ensures" || cl.Kind == "canary" {
					// a clause that cannot be interpreted on this code (a field changed its type, a named local is gone) is a failed
					// obligation of its own, named after the clause - not an engine failure of the whole function
					if _, err := ev.safeBool(cl.Expr); err != nil {
						vc.obls = append(vc.obls, &Obligation{Name: vc.oblName("spec", cl.Label), Kind: "spec", Props: ct.clauseProps(cl), Goal: TFalse, Reach: st.Reach, NFacts: len(vc.facts), Fn: f.String(), Status: "failed", Solver: "spec-evaluator", Output: err.Error() + " (" + cl.Where + ")", Expect: "unsat"})
						continue
					}
				}
				switch cl.Kind {
				case "ensures":
					evs := []*SpecEval{ev}
					var parent *Obligation
					if len(exits) > 1 {
						evs = exits
						// the clause on the merged exit state is tried first: when it discharges, every exit is covered
						n := len(vc.obls)
						vc.oblige(st, "post", cl.Label+"@all-exits", ct.clauseProps(cl), ev.evalBool(cl.Expr), f.Pos())
						if len(vc.obls) > n {
							vc.obls[n].Aux = true
							parent = vc.obls[n]
						}
					}
					for _, xe := range evs {
						n := len(vc.obls)
						vc.oblige(xe.cur, "post", cl.Label, ct.clauseProps(cl), xe.evalBool(cl.Expr), f.Pos())
						if len(vc.obls) > n {
							vc.obls[n].Parent = parent
						}
						if cl.Expr.Kind == "binary" && cl.Expr.Name == "==>" && len(vc.obls) > n && vc.obls[n].Status == "" {
							// "A ==> B": on an exit where A cannot hold the obligation is settled without looking at B
							vc.obls[n].Alt = Not(xe.evalBool(cl.Expr.Args[0]))
						}
					}
				case "canary":
					// a deliberately false postcondition: must be refuted
					o := &Obligation{Name: vc.oblName("canary", cl.Label), Kind: "canary", Props: ct.clauseProps(cl), Goal: ev.evalBool(cl.Expr), Reach: st.Reach, NFacts: len(vc.facts), Fn: f.String(), Expect: "sat"}
					vc.obls = append(vc.obls, o)
				}
			}
			for _, n := range ct.Fresh {
				if v, ok := env[n]; ok {
					if t, ok := v.V.(*Term); ok {
						vc.oblige(st, "post", "fresh/"+n, ct.allProps(), Le(IntLit(1), RootID(t)), f.Pos())
					}
				}
			}
			// ghost frame: a scalar ghost variable the contract does not list under assigns must be left unchanged,
			// because callers that use this contract keep its value across the call
			if (!ct.Inline || ct.UsedModular) && !ct.Lib {
				star := false
				listed := map[string]bool{}
				for _, a := range ct.Assigns {
					listed[a] = true
					if a == "*" {
						star = true
					}
				}
				for _, cl := range ct.Clauses {
					if cl.Kind == "enter" || cl.Kind == "leave" {
						listed[cl.Label] = true
					}
				}
				for _, g := range p.specs.GhostList {
					gd := p.specs.Ghost[g]
					cur, touched := st.Ghost[g]
					if star || listed[g] || !touched || gd.S.Name == "Array" {
						continue
					}
					entry := Var("g."+g+"@0", gd.S)
					if cur != entry {
						vc.oblige(st, "frame", "ghost:"+g, ct.allProps(), Eq(cur, entry), f.Pos())
					}
				}
			}
			// reachability of the normal exit (a proof over an unreachable exit is vacuous)
			vc.obls = append(vc.obls, &Obligation{Name: p.shortName(f) + "/cover/exit-reachable", Kind: "cover", Props: ct.allProps(), Goal: TFalse, Reach: st.Reach, NFacts: len(vc.facts), Fn: f.String(), Expect: "sat"})
		}
	}
	if n := len(vc.obls) * len(vc.facts); n > 4000000 {
		// rendering and solving cost grows with obligations x assumptions; the largest function on the pinned tree is at 0.7 M
		panic(fmt.Sprintf("resource budget exceeded: %d obligations x %d assumptions: the function is outside what the engine can decide", len(vc.obls), len(vc.facts)))
	}
	return vc, nil
}

func hasKind(ct *Contract, k string) bool {
	for _, cl := range ct.Clauses {
		if cl.Kind == k {
			return true
		}
	}
	return false
}

func (vc *VC) wellFormed(st *State, v Value) {
	switch x := v.(type) {
	case SliceV:
		vc.addFact(st, Le(IntLit(0), x.Len))
		vc.addFact(st, Implies(Eq(x.Base, TNil), Eq(x.Len, IntLit(0))))
	case StructV:
		for _, f := range x.F {
			vc.wellFormed(st, f)
		}
	case IfaceV:
		vc.addFact(st, Le(IntLit(0), x.Tag))
		vc.addFact(st, Implies(Eq(x.Tag, IntLit(0)), Eq(x.Val, TNil)))
	}
}

// execTop runs the function under proof with its own contract's invariants and spec environment
func (vc *VC) execTop(f *ssa.Function, binds, args []Value, st *State, ct *Contract, env map[string]SVal) Value {
	fr := &Frame{vc: vc, fn: f, env: map[ssa.Value]Value{}, cells: map[*ssa.Alloc]*LocalCell{}, loops: vc.prog.loopsOf(f), contract: ct, specEnv: env, entryAlloc: vc.allocN}
	fr.entry = st.clone()
	for i, p := range f.Params {
		fr.env[p] = args[i]
	}
	for i, fv := range f.FreeVars {
		fr.env[fv] = binds[i]
	}
	vc.stack = append(vc.stack, f)
	defer func() { vc.stack = vc.stack[:len(vc.stack)-1] }()
	e := &Edge{To: f.Blocks[0], St: st.clone(), Vals: map[ssa.Value]Value{}}
	fr.execRegion(nil, []*Edge{e}, nil)
	var sts []*State
	for _, r := range fr.rets {
		sts = append(sts, r.St)
	}
	vc.topRets = fr.rets
	vc.topFrame = fr
	m := mergeStates(sts)
	if m == nil {
		st.Reach = TFalse
		return TupleV{}
	}
	var acc Value
	for i := len(fr.rets) - 1; i >= 0; i-- {
		r := fr.rets[i]
		if r.St.Reach == TFalse {
			continue
		}
		if acc == nil {
			acc = r.Val
		} else {
			acc = iteValue(r.St.Reach, r.Val, acc)
		}
	}
	*st = *m
	return acc
}

// ---- discharge ----

type solverSpec struct {
	name string
	args func(file string, timeout int) []string
}

const wallFactor = 8

var solvers = []solverSpec{
	{"z3-new", func(f string, t int) []string { return []string{"z3-new", fmt.Sprintf("-T:%d", t), f} }},
	{"z3", func(f string, t int) []string { return []string{"z3", fmt.Sprintf("-T:%d", t), f} }},
	{"cvc5", func(f string, t int) []string {
		return []string{"cvc5", "--lang=smt2", fmt.Sprintf("--tlimit=%d", t*1000), f}
	}},
	{"cvc5-enum", func(f string, t int) []string {
		return []string{"cvc5", "--lang=smt2", "--enum-inst", fmt.Sprintf("--tlimit=%d", t*1000), f}
	}},
	{"z3-new/seed1", func(f string, t int) []string {
		return []string{"z3-new", fmt.Sprintf("-T:%d", t), "smt.random_seed=1", "sat.random_seed=1", f}
	}},
}

// portfolio raced on the cone-of-influence query (quantifier-heavy goals vary a lot between solvers and between seeds)
var relevantPortfolio = []int{0, 2, 3, 4}

func runSolver(s solverSpec, file string, timeout int) (verdict, output string, secs float64) {
	return runSolverCtx(context.Background(), s, file, timeout)
}

func runSolverCtx(ctx context.Context, s solverSpec, file string, timeout int) (verdict, output string, secs float64) {
	t0 := time.Now()
	// the time limit is CPU time of the solver process (RLIMIT_CPU through prlimit), so that verdicts do not depend on how
	// loaded the machine is; the solver's own wall-clock limit is a generous backstop
	a := s.args(file, timeout*wallFactor)
	a = append([]string{"prlimit", fmt.Sprintf("--cpu=%d", timeout)}, a...)
	cmd := exec.CommandContext(ctx, a[0], a[1:]...)
	out, runErr := cmd.CombinedOutput()
	secs = time.Since(t0).Seconds()
	if cmd.ProcessState != nil {
		secs = (cmd.ProcessState.UserTime() + cmd.ProcessState.SystemTime()).Seconds()
	}
	output = string(out)
	verdict = ""
	if ee, ok := runErr.(*exec.ExitError); ok && !ee.Exited() && !strings.Contains(output, "sat") {
		return "timeout", output + "\n(cpu limit reached)", secs
	}
	if strings.Contains(output, "(error") {
		return "error", output, secs
	}
	for _, line := range strings.Split(output, "\n") {
		line = strings.TrimSpace(line)
		if line == "unsat" || line == "sat" || line == "unknown" || line == "timeout" {
			verdict = line
			break
		}
	}
	if verdict == "" {
		if strings.Contains(output, "timeout") || strings.Contains(output, "interrupted") {
			verdict = "timeout"
		} else {
			verdict = "error"
		}
	}
	return
}

func (o *Obligation) query(vc *VC, model map[string]*Term) string {
	as := append([]*Term{}, vc.facts[:o.NFacts]...)
	as = append(as, o.Reach)
	return smtQuery(as, o.Goal, model != nil, model)
}

// relevantQuery: only the assumptions in the cone of influence of goal and path condition (sharing a non-heap
// symbol, transitively). Dropping assumptions is sound for unsat answers.
func (o *Obligation) relevantQuery(vc *VC, ground bool) (string, int) {
	facts := vc.facts[:o.NFacts]
	cone := map[string]bool{}
	for s := range vc.symbolsOf(o.Goal) {
		cone[s] = true
	}
	for s := range vc.symbolsOf(o.Reach) {
		cone[s] = true
	}
	used := make([]bool, len(facts))
	for changed := true; changed; {
		changed = false
		for i, f := range facts {
			if used[i] {
				continue
			}
			syms := vc.symbolsOf(f)
			hit := len(syms) == 0
			for s := range syms {
				if cone[s] {
					hit = true
					break
				}
			}
			if hit {
				used[i] = true
				changed = true
				for s := range syms {
					cone[s] = true
				}
			}
		}
	}
	var as []*Term
	for i, f := range facts {
		if used[i] {
			as = append(as, f)
		}
	}
	n := len(as)
	as = append(as, o.Reach)
	return smtQueryG(as, o.Goal, false, nil, ground), n
}

// symbolsOf: free non-array variables and uninterpreted function symbols of t (memoised per term)
func (vc *VC) symbolsOf(t *Term) map[string]bool {
	if vc.symCache == nil {
		vc.symCache = map[int]map[string]bool{}
	}
	if s, ok := vc.symCache[t.id]; ok {
		return s
	}
	out := map[string]bool{}
	seen := map[int]bool{}
	var walk func(t *Term)
	walk = func(t *Term) {
		if seen[t.id] {
			return
		}
		seen[t.id] = true
		switch t.Op {
		case "var":
			if t.S.Name != "Array" {
				out[t.Name] = true
			}
		case "app":
			switch t.Name {
			case "strlen", "concat", "rootid":
			default:
				if len(t.Args) == 0 || t.Name == "errmsg" {
					out["f:"+t.Name] = len(t.Args) == 0
				}
			}
		}
		for _, a := range t.Args {
			walk(a)
		}
	}
	walk(t)
	for k, v := range out {
		if !v {
			delete(out, k)
		}
	}
	vc.symCache[t.id] = out
	return out
}

// discharge all open obligations of vc; queries are written under dir
func (vc *VC) discharge(dir string, timeout int, thorough bool) {
	type job struct {
		o    *Obligation
		file string
	}
	var jobs []job
	termMu.Lock()
	for i, o := range vc.obls {
		if o.Status != "" {
			continue
		}
		file := filepath.Join(dir, fmt.Sprintf("%s_%d.smt2", sanitize(vc.prog.shortName(vc.top)), i))
		q := o.query(vc, nil)
		if o.Expect == "unsat" && o.Alt != nil {
			saved := o.Goal
			o.Goal = o.Alt
			aq, _ := o.relevantQuery(vc, true)
			os.WriteFile(file+".ag", []byte("; "+o.Name+" (antecedent refuted, ground relaxation)\n"+aq), 0o644)
			aq2, _ := o.relevantQuery(vc, false)
			os.WriteFile(file+".ar", []byte("; "+o.Name+" (antecedent refuted, cone of influence)\n"+aq2), 0o644)
			o.Goal = saved
		}
		if o.Expect == "unsat" {
			// stage files: ground relaxation (.g), cone of influence (.r), everything (plain)
			gq, _ := o.relevantQuery(vc, true)
			os.WriteFile(file+".g", []byte("; "+o.Name+" (ground relaxation: quantified assumptions and frame axioms dropped)\n"+gq), 0o644)
			rq, n := o.relevantQuery(vc, false)
			if n < o.NFacts {
				os.WriteFile(file+".r", []byte("; "+o.Name+" (assumptions in the cone of influence)\n"+rq), 0o644)
			}
		}
		if err := os.WriteFile(file, []byte("; "+o.Name+"\n"+q), 0o644); err != nil {
			o.Status, o.Output = "unknown", err.Error()
			continue
		}
		jobs = append(jobs, job{o, file})
	}
	termMu.Unlock()
	sem := globalSem
	run := func(sel func(o *Obligation) bool, tmo int) {
		var wg sync.WaitGroup
		for _, j := range jobs {
			if !sel(j.o) || j.o.Status != "" {
				continue
			}
			wg.Add(1)
			go func(j job) {
				defer wg.Done()
				sem <- struct{}{}
				defer func() { <-sem }()
				solveOne(j.o, j.file, tmo, thorough)
			}(j)
		}
		wg.Wait()
	}
	// phase 1: clauses on the merged exit state (a short attempt); phase 2: everything not implied by phase 1
	run(func(o *Obligation) bool { return o.Aux }, 3)
	for _, j := range jobs {
		if p := j.o.Parent; p != nil && p.Status == "discharged" && j.o.Status == "" {
			j.o.Status, j.o.Solver, j.o.Output = "discharged", p.Solver+" (all exits at once)", "implied by "+p.Name
		}
	}
	run(func(o *Obligation) bool { return !o.Aux }, timeout)
}

var globalSem = make(chan struct{}, 15)

// term construction (hash-consing tables) is not concurrent: query files are generated under this lock
var termMu sync.Mutex

// undischargedSoFar counts obligations of this run that came back failed or unknown. Once a check has clearly failed (8 of
// them) the remaining obligations get a short solver budget: the verdict "violation" no longer depends on them, and a
// broken tree is reported in a minute or two instead of a quarter of an hour. On a tree where everything discharges the
// counter stays at zero and nothing changes.
var undischargedSoFar int64

func solveOne(o *Obligation, file string, timeout int, thorough bool) {
	if atomic.LoadInt64(&undischargedSoFar) >= 8 && !thorough && timeout > 5 {
		timeout = 5
	}
	defer func() {
		if o.Expect != "sat" && o.Status != "discharged" {
			atomic.AddInt64(&undischargedSoFar, 1)
		}
	}()
	var log []string
	if o.Expect == "sat" {
		// covers and canaries: the query must NOT be refutable. "sat" is the definite answer; with quantified
		// assumptions solvers often answer unknown, which still means no contradiction / no proof was found.
		refuted := false
		for _, s := range solvers[:1] {
			v, out, secs := runSolver(s, file, 1)
			o.Time += secs
			log = append(log, fmt.Sprintf("%s: %s (%.2fs)", s.name, v, secs))
			if v == "error" {
				log = append(log, firstLines(out, 6))
				o.Status = "unknown"
				o.Output = strings.Join(log, "\n")
				return
			}
			if v == "unsat" {
				refuted = true
				o.Solver = s.name
			} else if o.Solver == "" {
				o.Solver = s.name
			}
			if v == "sat" || v == "unsat" {
				break
			}
		}
		if refuted {
			o.Status = "failed"
		} else {
			o.Status = "discharged"
		}
		o.Output = strings.Join(log, "\n")
		return
	}
	// staged: a ground relaxation, then the cone of influence, then everything on all solvers at once.
	// An unsat answer of a relaxation is an unsat answer of the full query.
	stage := func(f, label string, t int) bool {
		if _, err := os.Stat(f); err != nil {
			return false
		}
		v, _, secs := runSolver(solvers[0], f, t)
		o.Time += secs
		log = append(log, fmt.Sprintf("%s (%s): %s (%.2fs)", solvers[0].name, label, v, secs))
		if v == "unsat" {
			o.Solver = solvers[0].name + "/" + label
			if thorough {
				v2, _, secs2 := runSolver(solvers[2], f, t)
				o.Time += secs2
				log = append(log, fmt.Sprintf("%s (%s): %s (%.2fs)", solvers[2].name, label, v2, secs2))
				if v2 != "unsat" {
					v3, _, secs3 := runSolver(solvers[1], f, t)
					o.Time += secs3
					log = append(log, fmt.Sprintf("%s (%s): %s (%.2fs)", solvers[1].name, label, v3, secs3))
					if v3 == "sat" {
						return false
					}
				}
			}
			return true
		}
		return false
	}
	if stage(file+".ag", "antecedent-refuted/ground", 3) || stage(file+".ar", "antecedent-refuted", 5) || stage(file+".g", "ground", 3) {
		o.Status = "discharged"
		o.Output = strings.Join(log, "\n")
		return
	}
	type res struct {
		name, v, out string
		secs       float64
	}
	// race: first definite answer wins (thorough: every solver is heard)
	race := func(f, label string, which []int) (unsat, sat int) {
		ch := make(chan res, len(which))
		ctx, cancel := context.WithCancel(context.Background())
		defer cancel()
		for _, i := range which {
			go func(s solverSpec) {
				v, out, secs := runSolverCtx(ctx, s, f, timeout)
				ch <- res{s.name, v, out, secs}
			}(solvers[i])
		}
		for range which {
			r := <-ch
			if (unsat > 0 || sat > 0) && !thorough {
				break // a definite answer is in: the others are stopped
			}
			o.Time += r.secs
			log = append(log, fmt.Sprintf("%s%s: %s (%.2fs)", r.name, label, r.v, r.secs))
			if r.v == "error" {
				log = append(log, firstLines(r.out, 6))
			}
			if r.v == "unsat" {
				unsat++
				if o.Solver == "" {
					o.Solver = r.name + strings.TrimSuffix(strings.Replace(label, " (", "/", 1), ")")
				}
			}
			if r.v == "sat" {
				sat++
				o.Solver = r.name
			}
			if (unsat > 0 || sat > 0) && !thorough {
				cancel()
			}
		}
		return
	}
	if _, err := os.Stat(file + ".r"); err == nil {
		// an unsat answer on the cone of influence is an unsat answer of the full query (a sat answer is not)
		if u, _ := race(file+".r", " (relevant)", relevantPortfolio); u > 0 {
			o.Status = "discharged"
			o.Output = strings.Join(log, "\n")
			return
		}
	}
	all := make([]int, len(solvers))
	for i := range all {
		all[i] = i
	}
	unsat, sat := race(file, "", all)
	switch {
	case sat > 0:
		o.Status = "failed"
	case unsat > 0:
		o.Status = "discharged"
	default:
		o.Status = "unknown"
	}
	o.Output = strings.Join(log, "\n")
}

func firstLines(s string, n int) string {
	ls := strings.Split(s, "\n")
	if len(ls) > n {
		ls = ls[:n]
	}
	return strings.Join(ls, "\n")
}

func sanitize(s string) string {
	r := strings.NewReplacer("/", "_", "(", "", ")", "", "*", "", "$", "_", " ", "_")
	return r.Replace(s)
}

var _ = types.Typ

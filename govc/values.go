package main

// Symbolic values: how Go values are represented, flattened into memory cells, merged and compared.

import (
	"fmt"
	"go/types"
	"strings"

	"golang.org/x/tools/go/ssa"
)

type Value interface{}

// *Term                scalar (Int, Bool, Str, Ref for pointers/maps/chans, Int for func values and opaque values)
type StructV struct {
	T types.Type // the (named) struct type
	F []Value
}
type SliceV struct{ Base, Len *Term }
type IfaceV struct{ Tag, Val *Term } // Tag 0 = nil interface
type TupleV []Value
type LocalPtr struct { // address inside a non-escaping local variable
	Cell *LocalCell
	Path []int
}
type LocalCell struct {
	Alloc *ssa.Alloc
	ID    int
}

func kindOf(t types.Type) string {
	switch u := t.Underlying().(type) {
	case *types.Basic:
		switch {
		case u.Info()&types.IsBoolean != 0:
			return "bool"
		case u.Info()&types.IsInteger != 0:
			return "int"
		case u.Info()&types.IsString != 0:
			return "str"
		case u.Kind() == types.UnsafePointer:
			return "ref"
		case u.Kind() == types.UntypedNil:
			return "nil"
		}
		return "opaque" // floats, complex
	case *types.Pointer, *types.Map, *types.Chan:
		return "ref"
	case *types.Signature:
		return "fn"
	case *types.Slice:
		return "slice"
	case *types.Interface:
		return "iface"
	case *types.Struct:
		if isOpaqueStruct(t) {
			return "opaque"
		}
		return "struct"
	case *types.Tuple:
		return "tuple"
	case *types.Array:
		return "opaque"
	}
	return "opaque"
}

// library value types treated as one uninterpreted scalar
func isOpaqueStruct(t types.Type) bool {
	s := types.TypeString(t, nil)
	switch s {
	case "time.Time", "reflect.Value", "encoding/xml.Name":
		return true
	}
	return false
}

func scalarSort(kind string) *Sort {
	switch kind {
	case "bool":
		return SBool
	case "int", "fn", "opaque":
		return SInt
	case "str":
		return SStr
	case "ref", "nil":
		return SRef
	}
	panic("no scalar sort for " + kind)
}

func typeKey(t types.Type) string {
	return types.TypeString(t, func(p *types.Package) string { return p.Name() })
}

var freshCounter int

func freshName(prefix string) string {
	freshCounter++
	return fmt.Sprintf("%s!%d", prefix, freshCounter)
}

// freshValue builds an unconstrained value of Go type t; pointers inside are older than bound (0 = no bound)
func freshValue(t types.Type, name string, bound int64) Value {
	switch k := kindOf(t); k {
	case "bool", "int", "str", "fn", "opaque":
		return Var(freshName(name), scalarSort(k))
	case "ref", "nil":
		return VarB(freshName(name), SRef, bound)
	case "slice":
		return SliceV{VarB(freshName(name+".b"), SRef, bound), Var(freshName(name+".l"), SInt)}
	case "iface":
		return IfaceV{Var(freshName(name+".t"), SInt), VarB(freshName(name+".v"), SRef, bound)}
	case "struct":
		st := t.Underlying().(*types.Struct)
		sv := StructV{T: t}
		for i := 0; i < st.NumFields(); i++ {
			sv.F = append(sv.F, freshValue(st.Field(i).Type(), name+"."+st.Field(i).Name(), bound))
		}
		return sv
	case "tuple":
		tu := t.(*types.Tuple)
		var tv TupleV
		for i := 0; i < tu.Len(); i++ {
			tv = append(tv, freshValue(tu.At(i).Type(), fmt.Sprintf("%s.%d", name, i), bound))
		}
		return tv
	}
	panic("freshValue: " + t.String())
}

func zeroValue(t types.Type) Value {
	switch k := kindOf(t); k {
	case "bool":
		return TFalse
	case "int", "fn", "opaque":
		return IntLit(0)
	case "str":
		return StrLit("")
	case "ref", "nil":
		return TNil
	case "slice":
		return SliceV{TNil, IntLit(0)}
	case "iface":
		return IfaceV{IntLit(0), TNil}
	case "struct":
		st := t.Underlying().(*types.Struct)
		sv := StructV{T: t}
		for i := 0; i < st.NumFields(); i++ {
			sv.F = append(sv.F, zeroValue(st.Field(i).Type()))
		}
		return sv
	case "tuple":
		tu := t.(*types.Tuple)
		var tv TupleV
		for i := 0; i < tu.Len(); i++ {
			tv = append(tv, zeroValue(tu.At(i).Type()))
		}
		return tv
	}
	panic("zeroValue: " + t.String())
}

func iteValue(c *Term, a, b Value) Value {
	if c.Op == "bool" {
		if c.Int == 1 {
			return a
		}
		return b
	}
	switch x := a.(type) {
	case *Term:
		y, ok := b.(*Term)
		if !ok {
			panic(fmt.Sprintf("iteValue shape mismatch %T %T", a, b))
		}
		if x.S != y.S {
			panic(fmt.Sprintf("iteValue sort mismatch %v:%v %v:%v", x, x.S, y, y.S))
		}
		return Ite(c, x, y)
	case SliceV:
		y := b.(SliceV)
		return SliceV{Ite(c, x.Base, y.Base), Ite(c, x.Len, y.Len)}
	case IfaceV:
		y := b.(IfaceV)
		return IfaceV{Ite(c, x.Tag, y.Tag), Ite(c, x.Val, y.Val)}
	case StructV:
		y := b.(StructV)
		r := StructV{T: x.T}
		for i := range x.F {
			r.F = append(r.F, iteValue(c, x.F[i], y.F[i]))
		}
		return r
	case TupleV:
		y := b.(TupleV)
		var r TupleV
		for i := range x {
			r = append(r, iteValue(c, x[i], y[i]))
		}
		return r
	case LocalPtr:
		y, ok := b.(LocalPtr)
		if ok && x.Cell == y.Cell && fmt.Sprint(x.Path) == fmt.Sprint(y.Path) {
			return x
		}
		panic("iteValue: cannot merge different local pointers")
	case nil:
		return b
	}
	panic(fmt.Sprintf("iteValue: %T", a))
}

func eqValue(a, b Value) *Term {
	switch x := a.(type) {
	case *Term:
		return Eq(x, b.(*Term))
	case SliceV:
		y := b.(SliceV)
		return And(Eq(x.Base, y.Base), Eq(x.Len, y.Len))
	case IfaceV:
		y := b.(IfaceV)
		if (x.Tag.Op == "int" && x.Tag.Int == 0) || (y.Tag.Op == "int" && y.Tag.Int == 0) {
			return Eq(x.Tag, y.Tag) // comparison with the nil interface
		}
		return And(Eq(x.Tag, y.Tag), Eq(x.Val, y.Val))
	case StructV:
		y := b.(StructV)
		var cs []*Term
		for i := range x.F {
			cs = append(cs, eqValue(x.F[i], y.F[i]))
		}
		return And(cs...)
	case TupleV:
		y := b.(TupleV)
		var cs []*Term
		for i := range x {
			cs = append(cs, eqValue(x[i], y[i]))
		}
		return And(cs...)
	}
	panic(fmt.Sprintf("eqValue: %T", a))
}

// ---- memory cells ----

var fieldIDs = map[string]int64{}
var fieldIDNames = map[int64]string{}

func fieldID(structT types.Type, i int) int64 {
	st := structT.Underlying().(*types.Struct)
	k := typeKey(structT) + "." + st.Field(i).Name()
	if id, ok := fieldIDs[k]; ok {
		return id
	}
	id := int64(len(fieldIDs) + 1)
	fieldIDs[k] = id
	fieldIDNames[id] = k
	return id
}

// cellKeys: the heap arrays holding a non-struct value of type t, with their sorts
func cellKeys(t types.Type) ([]string, []*Sort) {
	switch k := kindOf(t); k {
	case "bool":
		return []string{"C:bool"}, []*Sort{SBool}
	case "int":
		return []string{"C:int"}, []*Sort{SInt}
	case "str":
		return []string{"C:string"}, []*Sort{SStr}
	case "fn":
		return []string{"C:func"}, []*Sort{SInt}
	case "opaque":
		return []string{"C:opq:" + typeKey(t)}, []*Sort{SInt}
	case "ref":
		return []string{"C:" + typeKey(t)}, []*Sort{SRef}
	case "slice":
		return []string{"C:" + typeKey(t) + "#b", "C:" + typeKey(t) + "#l"}, []*Sort{SRef, SInt}
	case "iface":
		return []string{"C:iface#t", "C:iface#v"}, []*Sort{SInt, SRef}
	}
	panic("cellKeys: " + t.String())
}

func isRefCell(key string) bool {
	return !(key == "C:bool" || key == "M:has" || key == "C:bytes" || key == "C:int" || key == "C:string" || key == "C:func" || strings.HasPrefix(key, "C:opq:") || strings.HasSuffix(key, "#l") || strings.HasSuffix(key, "#t"))
}

func heapSort(key string) *Sort {
	switch {
	case key == "C:bool", key == "M:has":
		return SArray(SRef, SBool)
	case key == "C:string", key == "C:bytes":
		return SArray(SRef, SStr)
	case key == "C:int", key == "C:func", strings.HasPrefix(key, "C:opq:"), strings.HasSuffix(key, "#l"), strings.HasSuffix(key, "#t"):
		return SArray(SRef, SInt)
	}
	return SArray(SRef, SRef)
}

func (st *State) heapGet(key string) *Term {
	if h, ok := st.Heap[key]; ok {
		return h
	}
	bound := int64(0)
	if isRefCell(key) {
		bound = 1 // entry heap: everything stored is older than the first allocation of this run
	}
	h := VarB(key+"@0", heapSort(key), bound)
	st.Heap[key] = h
	return h
}

func (st *State) load(addr *Term, t types.Type) Value {
	if kindOf(t) == "struct" {
		s := t.Underlying().(*types.Struct)
		sv := StructV{T: t}
		for i := 0; i < s.NumFields(); i++ {
			sv.F = append(sv.F, st.load(Sub(addr, fieldID(t, i)), s.Field(i).Type()))
		}
		return sv
	}
	keys, _ := cellKeys(t)
	switch kindOf(t) {
	case "slice":
		return SliceV{Select(st.heapGet(keys[0]), addr), Select(st.heapGet(keys[1]), addr)}
	case "iface":
		return IfaceV{Select(st.heapGet(keys[0]), addr), Select(st.heapGet(keys[1]), addr)}
	}
	return Select(st.heapGet(keys[0]), addr)
}

func (st *State) store(addr *Term, t types.Type, v Value) {
	if kindOf(t) == "struct" {
		s := t.Underlying().(*types.Struct)
		sv := v.(StructV)
		for i := 0; i < s.NumFields(); i++ {
			st.store(Sub(addr, fieldID(t, i)), s.Field(i).Type(), sv.F[i])
		}
		return
	}
	keys, _ := cellKeys(t)
	switch x := v.(type) {
	case SliceV:
		st.Heap[keys[0]] = Store(st.heapGet(keys[0]), addr, x.Base)
		st.Heap[keys[1]] = Store(st.heapGet(keys[1]), addr, x.Len)
	case IfaceV:
		st.Heap[keys[0]] = Store(st.heapGet(keys[0]), addr, x.Tag)
		st.Heap[keys[1]] = Store(st.heapGet(keys[1]), addr, x.Val)
	case *Term:
		st.Heap[keys[0]] = Store(st.heapGet(keys[0]), addr, x)
	default:
		panic(fmt.Sprintf("store: %T for %s", v, t))
	}
}

// local (non-escaping) variables
func getPath(v Value, path []int) Value {
	for _, i := range path {
		v = v.(StructV).F[i]
	}
	return v
}
func setPath(v Value, path []int, nv Value) Value {
	if len(path) == 0 {
		return nv
	}
	sv := v.(StructV)
	r := StructV{T: sv.T, F: append([]Value{}, sv.F...)}
	r.F[path[0]] = setPath(sv.F[path[0]], path[1:], nv)
	return r
}

// ---- state ----

type State struct {
	Reach  *Term
	Heap   map[string]*Term
	Locals map[*LocalCell]Value
	Ghost  map[string]*Term
}

func newState() *State {
	return &State{Reach: TTrue, Heap: map[string]*Term{}, Locals: map[*LocalCell]Value{}, Ghost: map[string]*Term{}}
}

func (st *State) clone() *State {
	n := &State{Reach: st.Reach, Heap: make(map[string]*Term, len(st.Heap)), Locals: make(map[*LocalCell]Value, len(st.Locals)), Ghost: make(map[string]*Term, len(st.Ghost))}
	for k, v := range st.Heap {
		n.Heap[k] = v
	}
	for k, v := range st.Locals {
		n.Locals[k] = v
	}
	for k, v := range st.Ghost {
		n.Ghost[k] = v
	}
	return n
}

// mergeStates: states are mutually exclusive alternatives guarded by their Reach conditions
func mergeStates(sts []*State) *State {
	var live []*State
	for _, s := range sts {
		if s != nil && s.Reach != TFalse {
			live = append(live, s)
		}
	}
	if len(live) == 0 {
		return nil
	}
	if len(live) == 1 {
		return live[0].clone()
	}
	out := newState()
	var rs []*Term
	for _, s := range live {
		rs = append(rs, s.Reach)
	}
	out.Reach = Or(rs...)
	rel := relConds(rs)
	// heaps
	keys := map[string]bool{}
	for _, s := range live {
		for k := range s.Heap {
			keys[k] = true
		}
	}
	for k := range keys {
		acc := live[len(live)-1].heapGet(k)
		for i := len(live) - 2; i >= 0; i-- {
			acc = Ite(rel[i], live[i].heapGet(k), acc)
		}
		out.Heap[k] = acc
	}
	gk := map[string]bool{}
	for _, s := range live {
		for k := range s.Ghost {
			gk[k] = true
		}
	}
	for k := range gk {
		var acc *Term
		var srt *Sort
		for _, s := range live {
			if g, ok := s.Ghost[k]; ok {
				srt = g.S
			}
		}
		for i := len(live) - 1; i >= 0; i-- {
			g, ok := live[i].Ghost[k]
			if !ok {
				if strings.HasPrefix(k, "defer:") || strings.HasPrefix(k, "maplen:") {
					g = IntLit(0)
				} else {
					g = Var("g."+k+"@0", srt) // untouched on this path: still the entry value
				}
			}
			if acc == nil {
				acc = g
			} else {
				acc = Ite(rel[i], g, acc)
			}
		}
		out.Ghost[k] = acc
	}
	lk := map[*LocalCell]bool{}
	for _, s := range live {
		for k := range s.Locals {
			lk[k] = true
		}
	}
	for k := range lk {
		var acc Value
		for i := len(live) - 1; i >= 0; i-- {
			v, ok := live[i].Locals[k]
			if !ok {
				continue
			}
			if acc == nil {
				acc = v
			} else {
				acc = iteValue(rel[i], v, acc)
			}
		}
		out.Locals[k] = acc
	}
	return out
}

// relConds: the conditions that tell mutually exclusive alternatives apart, with the conjuncts they all share removed.
// Under the merged path condition (which contains the shared part) an ite over the reduced conditions means the same.
func relConds(reaches []*Term) []*Term {
	if len(reaches) < 2 {
		return reaches
	}
	common := map[int]bool{}
	for _, c := range orConj(reaches[0]) {
		common[c.id] = true
	}
	for _, r := range reaches[1:] {
		here := map[int]bool{}
		for _, c := range orConj(r) {
			here[c.id] = true
		}
		for id := range common {
			if !here[id] {
				delete(common, id)
			}
		}
	}
	if len(common) == 0 {
		return reaches
	}
	out := make([]*Term, len(reaches))
	for i, r := range reaches {
		var rest []*Term
		for _, c := range orConj(r) {
			if !common[c.id] {
				rest = append(rest, c)
			}
		}
		out[i] = And(rest...)
	}
	return out
}

func reachesOf(sts []*State) []*Term {
	var rs []*Term
	for _, s := range sts {
		rs = append(rs, s.Reach)
	}
	return rs
}

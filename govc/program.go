package main

import (
	"fmt"
	"go/token"
	"go/types"
	"os"
	"sort"
	"strings"

	"golang.org/x/tools/go/packages"
	"golang.org/x/tools/go/ssa"
	"golang.org/x/tools/go/ssa/ssautil"
)

type Program struct {
	prog     *ssa.Program
	pkgs     []*ssa.Package
	fset     *token.FileSet
	specs    *Specs
	repo     string
	names    map[*ssa.Function]string
	byName   map[string]*ssa.Function
	loops    map[*ssa.Function]*LoopInfo
	pkgPaths []string
	pkgName  map[string]string
	storedGlobals map[*ssa.Global]bool
	ppkgs    []*packages.Package
	gconsts  map[*ssa.Global]*ssa.Const
	initStores map[*ssa.Store]bool
	initDone   map[*ssa.Function]bool
	heapKeys   []string
}

func loadProgram(repo, libDir string) (*Program, error) {
	cfg := &packages.Config{
		Mode:       packages.NeedName | packages.NeedFiles | packages.NeedCompiledGoFiles | packages.NeedImports | packages.NeedDeps | packages.NeedTypes | packages.NeedSyntax | packages.NeedTypesInfo | packages.NeedTypesSizes | packages.NeedModule,
		Dir:        repo,
		BuildFlags: []string{"-tags=verif"},
		Env:        os.Environ(),
	}
	pkgs, err := packages.Load(cfg, "./pkg/...")
	if err != nil {
		return nil, err
	}
	nerr := 0
	packages.Visit(pkgs, nil, func(p *packages.Package) {
		for _, e := range p.Errors {
			if strings.HasPrefix(p.PkgPath, modulePrefix) {
				fmt.Fprintln(os.Stderr, "load error:", e)
				nerr++
			}
		}
	})
	if nerr > 0 {
		return nil, fmt.Errorf("%d errors loading %s", nerr, repo)
	}
	prog, spkgs := ssautil.AllPackages(pkgs, ssa.GlobalDebug)
	for _, p := range spkgs {
		if p != nil && strings.HasPrefix(p.Pkg.Path(), modulePrefix) {
			p.Build()
		}
	}
	P := &Program{prog: prog, fset: prog.Fset, repo: repo, names: map[*ssa.Function]string{}, byName: map[string]*ssa.Function{}, loops: map[*ssa.Function]*LoopInfo{}, pkgName: map[string]string{}, ppkgs: pkgs}
	for _, p := range prog.AllPackages() {
		P.pkgPaths = append(P.pkgPaths, p.Pkg.Path())
		P.pkgName[p.Pkg.Path()] = p.Pkg.Name()
		if strings.HasPrefix(p.Pkg.Path(), modulePrefix) {
			P.pkgs = append(P.pkgs, p)
		}
	}
	sort.Slice(P.pkgPaths, func(i, j int) bool { return len(P.pkgPaths[i]) > len(P.pkgPaths[j]) })
	sort.Slice(P.pkgs, func(i, j int) bool { return P.pkgs[i].Pkg.Path() < P.pkgs[j].Pkg.Path() })
	specs, err := loadSpecs(repo, libDir)
	if err != nil {
		return nil, err
	}
	P.specs = specs
	// index module functions (including methods and anonymous functions)
	for f := range ssautil.AllFunctions(prog) {
		if inModule(f) {
			P.byName[P.shortName(f)] = f
		}
	}
	for _, p := range P.pkgs {
		for _, m := range p.Members {
			if f, ok := m.(*ssa.Function); ok {
				P.indexFn(f)
			}
			if t, ok := m.(*ssa.Type); ok {
				for _, typ := range []types.Type{t.Type(), types.NewPointer(t.Type())} {
					ms := prog.MethodSets.MethodSet(typ)
					for i := 0; i < ms.Len(); i++ {
						if f := prog.MethodValue(ms.At(i)); f != nil && inModule(f) && f.Synthetic == "" {
							P.indexFn(f)
						}
					}
				}
			}
		}
	}
	// globals stored to anywhere in the module
	P.storedGlobals = map[*ssa.Global]bool{}
	for _, f := range P.byName {
		for _, b := range f.Blocks {
			for _, ins := range b.Instrs {
				if s, ok := ins.(*ssa.Store); ok {
					if g, ok := s.Addr.(*ssa.Global); ok && f.Name() != "init" {
						P.storedGlobals[g] = true
					}
				}
			}
		}
	}
	return P, nil
}

func (p *Program) indexFn(f *ssa.Function) {
	p.byName[p.shortName(f)] = f
	for _, a := range f.AnonFuncs {
		p.indexFn(a)
	}
}

func (p *Program) shortName(f *ssa.Function) string {
	if n, ok := p.names[f]; ok {
		return n
	}
	s := f.String()
	for _, path := range p.pkgPaths {
		if strings.Contains(s, path) {
			s = strings.ReplaceAll(s, path+".", p.pkgName[path]+".")
		}
	}
	p.names[f] = s
	return s
}

func (p *Program) contractFor(f *ssa.Function) *Contract {
	return p.specs.Contracts[p.shortName(f)]
}

func (p *Program) loopsOf(f *ssa.Function) *LoopInfo {
	if l, ok := p.loops[f]; ok {
		return l
	}
	l := analyzeLoops(f)
	p.loops[f] = l
	return l
}

func (p *Program) pos(pos token.Pos) string {
	if !pos.IsValid() {
		return ""
	}
	ps := p.fset.Position(pos)
	return fmt.Sprintf("%s:%d", strings.TrimPrefix(ps.Filename, p.repo+"/"), ps.Line)
}

func (p *Program) methodOf(t types.Type, m *types.Func) *ssa.Function {
	ms := p.prog.MethodSets.MethodSet(t)
	sel := ms.Lookup(m.Pkg(), m.Name())
	if sel == nil {
		return nil
	}
	return p.prog.MethodValue(sel)
}

// lookupGlobal resolves Name or pkg.Name to a module-level constant or variable
func (p *Program) lookupGlobal(name string, ctx *ssa.Package, st *State) (Value, types.Type, bool) {
	var cands []*ssa.Package
	id := name
	if i := strings.Index(name, "."); i > 0 {
		for _, pk := range p.prog.AllPackages() {
			if pk.Pkg.Name() == name[:i] {
				cands = append(cands, pk)
			}
		}
		id = name[i+1:]
	} else if ctx != nil {
		cands = []*ssa.Package{ctx}
	}
	for _, pk := range cands {
		switch m := pk.Members[id].(type) {
		case *ssa.NamedConst:
			vc := &VC{}
			return vc.constValue(m.Value), m.Type(), true
		case *ssa.Global:
			et := m.Type().(*types.Pointer).Elem()
			vcx := &VC{}
			if c := p.globalConst(m); c != nil {
				return vcx.constValue(c), et, true
			}
			return st.load(vcx.globalRef(m), et), et, true
		}
	}
	return nil, nil, false
}

// initial values of module-level variables that are never stored to in the module: var X = "literal"
func (p *Program) globalInitFacts(st *State) []*Term {
	var facts []*Term
	vcx := &VC{}
	for _, pk := range p.pkgs {
		init := pk.Func("init")
		if init == nil {
			continue
		}
		for _, b := range init.Blocks {
			for _, ins := range b.Instrs {
				s, ok := ins.(*ssa.Store)
				if !ok {
					continue
				}
				g, ok := s.Addr.(*ssa.Global)
				if !ok || p.storedGlobals[g] || strings.Contains(g.Name(), "$") {
					continue
				}
				if call, isCall := s.Val.(*ssa.Call); isCall {
					if callee := call.Call.StaticCallee(); callee != nil && (p.shortName(callee) == "errors.New" || p.shortName(callee) == "fmt.Errorf" || p.shortName(callee) == "regexp.MustCompile") {
						// package-level sentinel errors are non-nil
						et := g.Type().(*types.Pointer).Elem()
						facts = append(facts, Not(isZero(st.load(vcx.globalRef(g), et), et)))
					}
					continue
				}
				c, ok := s.Val.(*ssa.Const)
				if !ok {
					continue
				}
				et := g.Type().(*types.Pointer).Elem()
				if k := kindOf(et); k != "str" && k != "int" && k != "bool" {
					continue
				}
				facts = append(facts, eqValue(st.load(vcx.globalRef(g), et), vcx.constValue(c)))
			}
		}
	}
	return facts
}

// globalConst: the literal a module-level variable is initialised with, when nothing in the module ever stores to it
func (p *Program) globalConst(g *ssa.Global) *ssa.Const {
	if p.gconsts == nil {
		p.gconsts = map[*ssa.Global]*ssa.Const{}
		for _, pk := range p.pkgs {
			init := pk.Func("init")
			if init == nil {
				continue
			}
			for _, b := range init.Blocks {
				for _, ins := range b.Instrs {
					s, ok := ins.(*ssa.Store)
					if !ok {
						continue
					}
					gl, ok := s.Addr.(*ssa.Global)
					if !ok || p.storedGlobals[gl] || strings.Contains(gl.Name(), "$") {
						continue
					}
					c, ok := s.Val.(*ssa.Const)
					if !ok {
						continue
					}
					et := gl.Type().(*types.Pointer).Elem()
					if k := kindOf(et); k != "str" && k != "int" && k != "bool" {
						continue
					}
					if _, dup := p.gconsts[gl]; dup {
						p.gconsts[gl] = nil // initialised twice: not a constant
						continue
					}
					p.gconsts[gl] = c
				}
			}
		}
	}
	return p.gconsts[g]
}

// namedType resolves "pkg.Type" (package by name) to its named type
func (p *Program) namedType(name string) types.Type {
	i := strings.LastIndex(name, ".")
	if i < 0 {
		return nil
	}
	for _, pk := range p.prog.AllPackages() {
		if pk.Pkg.Name() != name[:i] {
			continue
		}
		if o := pk.Pkg.Scope().Lookup(name[i+1:]); o != nil {
			if tn, ok := o.(*types.TypeName); ok {
				return tn.Type()
			}
		}
	}
	return nil
}

// heapKeyUniverse: every kind of memory cell module code can touch (closure of the types of all SSA values of module functions
// under pointer/slice/map/array element and struct field). The entry state of a proof materialises all of them, so that a
// havoc that ranges over "every heap array" (a contract applied at a call site, a loop cut at its invariant) also covers arrays
// the function reads for the first time only afterwards.
func (p *Program) heapKeyUniverse() []string {
	if p.heapKeys != nil {
		return p.heapKeys
	}
	seenT := map[string]bool{}
	keys := map[string]bool{"C:bytes": true, "M:has": true, "C:iface#t": true, "C:iface#v": true, "C:string": true, "C:int": true, "C:bool": true, "C:func": true}
	var visit func(t types.Type)
	visit = func(t types.Type) {
		if t == nil {
			return
		}
		ts := types.TypeString(t, nil)
		if seenT[ts] {
			return
		}
		seenT[ts] = true
		switch k := kindOf(t); k {
		case "tuple":
			tu := t.(*types.Tuple)
			for i := 0; i < tu.Len(); i++ {
				visit(tu.At(i).Type())
			}
			return
		case "nil":
			return
		case "struct":
			s := t.Underlying().(*types.Struct)
			for i := 0; i < s.NumFields(); i++ {
				visit(s.Field(i).Type())
			}
			return
		default:
			func() {
				defer func() { recover() }()
				ks, _ := cellKeys(t)
				for _, k := range ks {
					keys[k] = true
				}
			}()
		}
		switch u := t.Underlying().(type) {
		case *types.Pointer:
			visit(u.Elem())
		case *types.Slice:
			visit(u.Elem())
		case *types.Array:
			visit(u.Elem())
		case *types.Map:
			visit(u.Key())
			visit(u.Elem())
		}
	}
	for f := range p.names {
		for _, prm := range f.Params {
			visit(prm.Type())
		}
		for _, fv := range f.FreeVars {
			visit(fv.Type())
		}
		for _, b := range f.Blocks {
			for _, ins := range b.Instrs {
				if v, ok := ins.(ssa.Value); ok {
					visit(v.Type())
				}
			}
		}
	}
	for _, pk := range p.pkgs {
		for _, m := range pk.Members {
			if g, ok := m.(*ssa.Global); ok {
				visit(g.Type())
			}
		}
	}
	for k := range keys {
		p.heapKeys = append(p.heapKeys, k)
	}
	sort.Strings(p.heapKeys)
	return p.heapKeys
}

package main

// Built-in models of a few library functions whose contract depends on constant arguments
// (format strings) and therefore cannot be written once in the spec language.

import (
	"go/types"
	"strings"

	"golang.org/x/tools/go/ssa"
)

func (fr *Frame) special(site ssa.Instruction, f *ssa.Function, args []Value, st *State, rt types.Type) (Value, bool) {
	vc := fr.vc
	name := vc.prog.shortName(f)
	if f.Name() == "Execute" && f.Pkg != nil && strings.HasSuffix(f.Pkg.Pkg.Path(), "text/template") {
		// text/template does no contextual escaping: a page built with it is outside every contract on Execute (C17)
		vc.oblige(st, "subset", "text/template.Execute-used-for-a-reply", []string{"C17"}, TFalse, site.Pos())
	}
	switch name {
	case "fmt.Sprintf":
		vc.assumed["A-MISC: fmt.Sprintf with %s/%v verbs over strings is concatenation; other formats are uninterpreted functions of their arguments"] = true
		return fr.sprintf(site, args, st), true
	case "fmt.Errorf":
		vc.assumed["A-MISC: fmt.Errorf returns a fresh non-nil error whose message is the formatted string"] = true
		msg := fr.sprintf(site, args, st)
		e := vc.alloc()
		vc.addFact(st, Eq(App("errmsg", SStr, e), msg))
		return IfaceV{IntLit(typeTagNamed("*fmt.wrapError")), e}, true
	case "errors.New":
		e := vc.alloc()
		vc.addFact(st, Eq(App("errmsg", SStr, e), args[0].(*Term)))
		return IfaceV{IntLit(typeTagNamed("*errors.errorString")), e}, true
	case "reflect.DeepEqual":
		vc.assumed["A-MISC: reflect.DeepEqual on two values of the same flat struct type is fieldwise equality; on values of different dynamic types it is false"] = true
		a, b := args[0].(IfaceV), args[1].(IfaceV)
		if a.Tag.Op == "int" && b.Tag.Op == "int" {
			if a.Tag.Int != b.Tag.Int {
				return TFalse, true
			}
			if t, ok := typeTagTypes[a.Tag.Int]; ok && kindOf(t) == "struct" && flatStruct(t) {
				return eqValue(st.load(a.Val, t), st.load(b.Val, t)), true
			}
		}
		return Var(freshName("deepequal"), SBool), true
	case "reflect.ValueOf":
		iv := args[0].(IfaceV)
		return App("rvOf", SInt, iv.Tag, iv.Val), true
	case "(reflect.Value).Kind":
		// the kind of a value whose dynamic type is known statically
		if v, ok := args[0].(*Term); ok && v.Op == "app" && v.Name == "rvOf" && v.Args[0].Op == "int" {
			if t, ok := typeTagTypes[v.Args[0].Int]; ok {
				k := int64(-1)
				switch t.Underlying().(type) {
				case *types.Struct:
					k = 25
				case *types.Pointer:
					k = 22
				case *types.Slice:
					k = 23
				case *types.Map:
					k = 21
				case *types.Interface:
					k = 20
				case *types.Signature:
					k = 19
				case *types.Chan:
					k = 18
				}
				if b, ok := t.Underlying().(*types.Basic); ok && b.Kind() == types.String {
					k = 24
				}
				if k >= 0 {
					vc.assumed["A-MISC: reflect.Value.Kind of a value of statically known dynamic type is that type's kind"] = true
					return IntLit(k), true
				}
			}
		}
	case "strings.HasPrefix":
		return App("hasPrefix", SBool, args[0].(*Term), args[1].(*Term)), true
	case "strings.HasSuffix":
		return App("hasSuffix", SBool, args[0].(*Term), args[1].(*Term)), true
	case "strings.TrimPrefix":
		return App("trimPrefix", SStr, args[0].(*Term), args[1].(*Term)), true
	case "strings.TrimSuffix":
		return App("trimSuffix", SStr, args[0].(*Term), args[1].(*Term)), true
	}
	return nil, false
}

var namedTags = map[string]int64{}

func typeTagNamed(n string) int64 {
	if id, ok := namedTags[n]; ok {
		return id
	}
	id := int64(900000 + len(namedTags))
	namedTags[n] = id
	return id
}

// sprintf: args[0] format, args[1] variadic []interface{} slice
func (fr *Frame) sprintf(site ssa.Instruction, args []Value, st *State) *Term {
	vc := fr.vc
	format, _ := args[0].(*Term)
	var elems []Value
	if len(args) > 1 {
		sl := args[1].(SliceV)
		if sl.Len.Op == "int" {
			for i := int64(0); i < sl.Len.Int; i++ {
				elems = append(elems, st.load(Elem(sl.Base, IntLit(i)), types.NewInterfaceType(nil, nil)))
			}
		} else {
			return App("sprintf_dyn", SStr, format, sl.Base)
		}
	}
	if format == nil || format.Op != "strlit" {
		ts := []*Term{format}
		for _, e := range elems {
			ts = append(ts, e.(IfaceV).Val)
		}
		return App("sprintf_any", SStr, ts...)
	}
	f := format.Name
	out := StrLit("")
	ai := 0
	for i := 0; i < len(f); i++ {
		if f[i] != '%' {
			j := strings.IndexByte(f[i:], '%')
			if j < 0 {
				j = len(f) - i
			}
			out = Concat(out, StrLit(f[i:i+j]))
			i += j - 1
			continue
		}
		if i+1 < len(f) && f[i+1] == '%' {
			out = Concat(out, StrLit("%"))
			i++
			continue
		}
		if i+1 >= len(f) || ai >= len(elems) {
			return App("sprintf_bad", SStr, format)
		}
		verb := f[i+1]
		iv := elems[ai].(IfaceV)
		ai++
		i++
		var piece *Term
		switch {
		case (verb == 's' || verb == 'v') && iv.Tag.Op == "int" && iv.Tag.Int == typeTag(types.Typ[types.String]):
			piece = Select(st.heapGet("C:string"), iv.Val)
		case (verb == 's' || verb == 'v' || verb == 'w'):
			// error or other value: its rendering is an uninterpreted function of the dynamic value
			piece = App("render", SStr, iv.Tag, iv.Val)
			if isErrorTag(iv.Tag) {
				piece = App("errmsg", SStr, iv.Val)
			} else if iv.Tag.Op == "int" {
				if t, ok := typeTagTypes[iv.Tag.Int]; ok && kindOf(t) == "opaque" {
					// a boxed scalar value (uuid.UUID, time.Time ...): the text is a function of the value, not of the box
					if val, ok := st.load(iv.Val, t).(*Term); ok {
						piece = App("textOf_"+strings.NewReplacer(".", "_", "/", "_", "*", "p").Replace(typeKey(t)), SStr, val)
					}
				}
			}
		default:
			piece = App("render_"+string(verb), SStr, iv.Tag, iv.Val)
		}
		out = Concat(out, piece)
	}
	_ = vc
	return out
}

func isErrorTag(t *Term) bool {
	return t.Op == "int" && t.Int >= 900000
}

// flatStruct: only scalar (string/int/bool/opaque) fields, recursively
func flatStruct(t types.Type) bool {
	st := t.Underlying().(*types.Struct)
	for i := 0; i < st.NumFields(); i++ {
		switch kindOf(st.Field(i).Type()) {
		case "str", "int", "bool", "opaque":
		case "struct":
			if !flatStruct(st.Field(i).Type()) {
				return false
			}
		default:
			return false
		}
	}
	return true
}

package main

// Symbolic executor over go/ssa: block-merging forward execution, loops cut at invariants or
// unrolled when the trip count folds to a constant.

import (
	"fmt"
	"go/token"
	"go/types"
	"sort"
	"strings"

	"golang.org/x/tools/go/ssa"
)

type Obligation struct {
	Name   string
	Kind   string // post pre inv-init inv-pres nil bounds assert frame subset cover canary
	Props  []string
	Goal   *Term
	Reach  *Term
	NFacts int
	Pos    string
	Fn     string
	// result
	Status string // discharged failed unknown
	Solver string
	Time   float64
	Output string
	Expect string // "unsat" normally, "sat" for canaries/covers
	Parent *Obligation // the same clause on the merged exit state: when that discharges, this one is implied
	Aux    bool        // a proof strategy, not an obligation of its own (never reported)
	Alt    *Term  // a stronger goal tried first (the negated antecedent of an implication: the case does not arise on this exit)
}

type Closure struct {
	Fn       *ssa.Function
	Bindings []Value
}

type VC struct {
	prog     *Program
	top      *ssa.Function
	contract *Contract
	facts    []*Term
	obls     []*Obligation
	allocN   int64
	closures map[int64]*Closure
	fnIDs    map[*ssa.Function]int64
	nextFn   int64
	sweep    bool // safety-only mode: callees without contract are inlined, posts ignored
	refute   bool
	unrollLimit int
	assumed  map[string]bool // lib contracts / assumptions used
	inlined  map[string]bool
	warnings map[string]bool
	cellN    int
	stack    []*ssa.Function
	ghostEntry map[string]*Term
	symCache   map[int]map[string]bool
	topRets    []*retEdge // return edges of the function under proof
	topFrame   *Frame
	noSplit    bool
	paramVals  []Value // symbolic arguments of the function under proof
	preState   *State  // its entry state
	pendingAlt *retEdge // second group of return edges of the inlined call just executed (see execInstrs)
	pendingMore []*retEdge // further groups (contracts with "splitreturns": one per way of reaching `return true`)
}

func newVC(p *Program, fn *ssa.Function) *VC {
	return &VC{prog: p, top: fn, allocN: 1, closures: map[int64]*Closure{}, fnIDs: map[*ssa.Function]int64{}, nextFn: 1000,
		assumed: map[string]bool{}, inlined: map[string]bool{}, warnings: map[string]bool{}, unrollLimit: 64, ghostEntry: map[string]*Term{}}
}

func (vc *VC) warn(f string, a ...interface{}) { vc.warnings[fmt.Sprintf(f, a...)] = true }

func (vc *VC) addFact(st *State, t *Term) {
	t = Implies(st.Reach, t)
	if t == TTrue {
		return
	}
	vc.facts = append(vc.facts, t)
}

func (vc *VC) oblige(st *State, kind, label string, props []string, goal *Term, pos token.Pos) {
	if goal == TTrue {
		// trivially true after simplification: still counted, discharged by the simplifier
		vc.obls = append(vc.obls, &Obligation{Name: vc.oblName(kind, label), Kind: kind, Props: props, Goal: goal, Reach: st.Reach, NFacts: len(vc.facts), Pos: vc.prog.pos(pos), Fn: vc.top.String(), Status: "discharged", Solver: "simplifier", Expect: "unsat"})
		return
	}
	vc.obls = append(vc.obls, &Obligation{Name: vc.oblName(kind, label), Kind: kind, Props: props, Goal: goal, Reach: st.Reach, NFacts: len(vc.facts), Pos: vc.prog.pos(pos), Fn: vc.top.String(), Expect: "unsat"})
}

func (vc *VC) oblName(kind, label string) string {
	base := fmt.Sprintf("%s/%s/%s", vc.prog.shortName(vc.top), kind, label)
	n := 0
	for _, o := range vc.obls {
		if o.Name == base || strings.HasPrefix(o.Name, base+"#") {
			n++
		}
	}
	if n > 0 {
		return fmt.Sprintf("%s#%d", base, n+1)
	}
	return base
}

// check: generate a safety obligation and continue under the assumption that it holds
func (vc *VC) check(st *State, kind, label string, cond *Term, pos token.Pos) {
	if cond == TTrue {
		return
	}
	vc.oblige(st, kind, label, nil, cond, pos)
	vc.addFact(st, cond)
}

func (vc *VC) alloc() *Term {
	t := ObjLit(vc.allocN)
	vc.allocN++
	return t
}

// ---------------------------------------------------------------------------------------------

type Edge struct {
	From, To *ssa.BasicBlock
	St       *State
	Vals     map[ssa.Value]Value // phi operands for To and loop live-outs
}

type Frame struct {
	vc     *VC
	fn     *ssa.Function
	env    map[ssa.Value]Value
	cells  map[*ssa.Alloc]*LocalCell
	loops  *LoopInfo
	rets   []*retEdge
	defers []*deferred
	depth  int
	contract *Contract
	specEnv map[string]SVal // parameter bindings for contract clauses
	entry  *State
	curLoopHead *ssa.BasicBlock
	curCallEnv  map[string]SVal
	entryAlloc  int64          // allocation counter when this frame started
	loopFrameFresh bool
	freshLoops  map[*Loop]bool // loops executed under a "assigns fresh" frame: stores inside are checked
}

type retEdge struct {
	St  *State
	Val Value
}
type deferred struct {
	flag string // ghost Bool set when the defer statement ran
	call *ssa.Defer
}

type Loop struct {
	Head   *ssa.BasicBlock
	Blocks map[*ssa.BasicBlock]bool
	Parent *Loop
	Ord    int // ordinal in source order (1-based)
	LiveOut []ssa.Value
}

type LoopInfo struct {
	ByHead map[*ssa.BasicBlock]*Loop
	Inner  map[*ssa.BasicBlock]*Loop // innermost loop containing block
	List   []*Loop
}

func analyzeLoops(fn *ssa.Function) *LoopInfo {
	li := &LoopInfo{ByHead: map[*ssa.BasicBlock]*Loop{}, Inner: map[*ssa.BasicBlock]*Loop{}}
	for _, b := range fn.Blocks {
		for _, s := range b.Succs {
			if s.Dominates(b) { // back edge b -> s
				l := li.ByHead[s]
				if l == nil {
					l = &Loop{Head: s, Blocks: map[*ssa.BasicBlock]bool{s: true}}
					li.ByHead[s] = l
					li.List = append(li.List, l)
				}
				// natural loop: all blocks that reach b without passing through s
				stack := []*ssa.BasicBlock{b}
				for len(stack) > 0 {
					x := stack[len(stack)-1]
					stack = stack[:len(stack)-1]
					if l.Blocks[x] {
						continue
					}
					l.Blocks[x] = true
					stack = append(stack, x.Preds...)
				}
			}
		}
	}
	sort.Slice(li.List, func(i, j int) bool { return li.List[i].Head.Index < li.List[j].Head.Index })
	// source order ordinal: by position of the head block's first instruction with a position, fallback index
	for i, l := range li.List {
		l.Ord = i + 1
	}
	// nesting: parent = smallest strictly containing loop
	for _, l := range li.List {
		for _, m := range li.List {
			if m != l && m.Blocks[l.Head] && len(m.Blocks) > len(l.Blocks) {
				if l.Parent == nil || len(m.Blocks) < len(l.Parent.Blocks) {
					l.Parent = m
				}
			}
		}
	}
	for _, b := range fn.Blocks {
		for _, l := range li.List {
			if l.Blocks[b] {
				if cur := li.Inner[b]; cur == nil || len(l.Blocks) < len(cur.Blocks) {
					li.Inner[b] = l
				}
			}
		}
	}
	// live-outs: values defined in the loop and used outside it (other than through the target's phis)
	for _, l := range li.List {
		seen := map[ssa.Value]bool{}
		for b := range l.Blocks {
			for _, ins := range b.Instrs {
				v, ok := ins.(ssa.Value)
				if !ok || v.Referrers() == nil {
					continue
				}
				for _, r := range *v.Referrers() {
					if r.Block() != nil && !l.Blocks[r.Block()] && !seen[v] {
						seen[v] = true
						l.LiveOut = append(l.LiveOut, v)
					}
				}
			}
		}
	}
	return li
}

func (l *Loop) contains(m *Loop) bool {
	for ; m != nil; m = m.Parent {
		if m == l {
			return true
		}
	}
	return false
}

// region result
type regionOut struct {
	back  []*Edge            // edges to the region's own head
	exits []*Edge            // edges leaving the region
}

// execRegion executes the blocks of loop l (or the whole function when l == nil) once.
// incoming holds the edges entering the region head.
func (fr *Frame) execRegion(l *Loop, headIn []*Edge, preset *State) *regionOut {
	out := &regionOut{}
	incoming := map[*ssa.BasicBlock][]*Edge{}
	var head *ssa.BasicBlock
	if l == nil {
		head = fr.fn.Blocks[0]
	} else {
		head = l.Head
	}
	incoming[head] = headIn
	inRegion := func(b *ssa.BasicBlock) bool { return l == nil || l.Blocks[b] }
	// blocks in reverse postorder ignoring back edges
	order := fr.rpo(head, inRegion)
	done := map[*ssa.BasicBlock]bool{}
	route := func(e *Edge) {
		switch {
		case e.To == head && l != nil:
			out.back = append(out.back, e)
		case !inRegion(e.To):
			out.exits = append(out.exits, e)
		default:
			incoming[e.To] = append(incoming[e.To], e)
		}
	}
	for _, b := range order {
		if done[b] {
			continue
		}
		inner := fr.loops.ByHead[b]
		if inner != nil && inner != l {
			// nested loop: handled as a unit
			exits := fr.execLoop(inner, incoming[b])
			for blk := range inner.Blocks {
				done[blk] = true
			}
			for _, e := range exits {
				route(e)
			}
			continue
		}
		done[b] = true
		var st *State
		if !(b == head && preset != nil) && len(incoming[b]) > 1 &&
			((fr.contract != nil && fr.contract.SplitReturns && fr.fn != fr.vc.top && returnsTrue(b)) || (fr.fn == fr.vc.top && fr.splitEdgesInto(b, incoming[b]))) {
			// "splitreturns": the block that returns true is executed once per incoming edge (one per failing step of an
			// unrolled chain), so that each way of failing stays a return edge - and a group in the caller - of its own
			for _, e := range incoming[b] {
				if e.St == nil || e.St.Reach == TFalse {
					continue
				}
				if st1 := fr.enterBlock(b, []*Edge{e}); st1 != nil {
					for _, oe := range fr.execBlock(b, st1, l) {
						route(oe)
					}
				}
			}
			continue
		}
		if b == head && preset != nil {
			st = preset
		} else {
			st = fr.enterBlock(b, incoming[b])
		}
		if st == nil {
			continue
		}
		for _, e := range fr.execBlock(b, st, l) {
			route(e)
		}
	}
	return out
}

// splitEdgesInto: in the function under proof, a block that only returns and is entered by several edges from one and the same
// predecessor block - which happens only when that block's tail ran once per return group of a "splitreturns" callee - is
// executed per edge, so that the groups reach the postconditions as separate return edges
func (fr *Frame) splitEdgesInto(b *ssa.BasicBlock, in []*Edge) bool {
	if len(b.Instrs) == 0 {
		return false
	}
	if _, ok := b.Instrs[len(b.Instrs)-1].(*ssa.Return); !ok {
		return false
	}
	for _, ins := range b.Instrs[:len(b.Instrs)-1] {
		switch ins.(type) {
		case *ssa.DebugRef, *ssa.RunDefers:
		default:
			return false
		}
	}
	for _, e := range in {
		if e.From != in[0].From {
			return false
		}
	}
	return true
}

// returnsTrue: the block consists of `return true` (plus debug references)
func returnsTrue(b *ssa.BasicBlock) bool {
	if len(b.Instrs) == 0 {
		return false
	}
	r, ok := b.Instrs[len(b.Instrs)-1].(*ssa.Return)
	if !ok || len(r.Results) != 1 {
		return false
	}
	c, ok := r.Results[0].(*ssa.Const)
	if !ok || c.Value == nil {
		return false
	}
	for _, ins := range b.Instrs[:len(b.Instrs)-1] {
		if _, dbg := ins.(*ssa.DebugRef); !dbg {
			return false
		}
	}
	return c.Value.String() == "true"
}

func (fr *Frame) rpo(head *ssa.BasicBlock, in func(*ssa.BasicBlock) bool) []*ssa.BasicBlock {
	var post []*ssa.BasicBlock
	seen := map[*ssa.BasicBlock]bool{}
	var dfs func(b *ssa.BasicBlock)
	dfs = func(b *ssa.BasicBlock) {
		seen[b] = true
		for _, s := range b.Succs {
			if !in(s) || seen[s] || s.Dominates(b) {
				continue
			}
			dfs(s)
		}
		post = append(post, b)
	}
	dfs(head)
	for i, j := 0, len(post)-1; i < j; i, j = i+1, j-1 {
		post[i], post[j] = post[j], post[i]
	}
	return post
}

// enterBlock merges the incoming edges and evaluates phis / carried values
func (fr *Frame) enterBlock(b *ssa.BasicBlock, in []*Edge) *State {
	var live []*Edge
	for _, e := range in {
		if e.St != nil && e.St.Reach != TFalse {
			live = append(live, e)
		}
	}
	if len(live) == 0 {
		return nil
	}
	var sts []*State
	for _, e := range live {
		sts = append(sts, e.St)
	}
	st := mergeStates(sts)
	keys := map[ssa.Value]bool{}
	for _, e := range live {
		for k := range e.Vals {
			keys[k] = true
		}
	}
	rel := relConds(reachesOf(sts))
	for k := range keys {
		var acc Value
		for i := len(live) - 1; i >= 0; i-- {
			v, ok := live[i].Vals[k]
			if !ok {
				continue
			}
			if acc == nil {
				acc = v
			} else {
				acc = iteValue(rel[i], v, acc)
			}
		}
		fr.env[k] = acc
	}
	return st
}

// mkEdge captures phi operands of the target and live-outs of loops being left
func (fr *Frame) mkEdge(from, to *ssa.BasicBlock, st *State) *Edge {
	e := &Edge{From: from, To: to, St: st, Vals: map[ssa.Value]Value{}}
	// which predecessor index
	idx := -1
	for i, p := range to.Preds {
		if p == from {
			idx = i
			break
		}
	}
	for _, ins := range to.Instrs {
		phi, ok := ins.(*ssa.Phi)
		if !ok {
			break
		}
		e.Vals[phi] = fr.get(phi.Edges[idx])
	}
	for l := fr.loops.Inner[from]; l != nil; l = l.Parent {
		if l.Blocks[to] {
			break
		}
		for _, v := range l.LiveOut {
			if val, ok := fr.env[v]; ok {
				e.Vals[v] = val
			}
		}
	}
	return e
}

// execLoop handles loop l given the edges entering its head from outside; returns the exit edges
func (fr *Frame) execLoop(l *Loop, entry []*Edge) []*Edge {
	vc := fr.vc
	invs := fr.invariantsFor(l)
	inlined := fr.fn != vc.top
	hasFrame := false
	if fr.contract != nil {
		for _, cl := range fr.contract.Clauses {
			if cl.Kind == "loopframe" && cl.Loop == l.Ord {
				hasFrame = true
			}
		}
	}
	if len(invs) == 0 || inlined || vc.refute {
		// try exact unrolling
		var exits []*Edge
		edges := entry
		snapFacts, snapObls, snapAlloc := len(vc.facts), len(vc.obls), vc.allocN
		ok := false
		for iter := 0; iter <= vc.unrollLimit; iter++ {
			live := false
			for _, e := range edges {
				if e.St != nil && e.St.Reach != TFalse {
					live = true
				}
			}
			if !live {
				ok = true
				break
			}
			if iter == vc.unrollLimit {
				break
			}
			res := fr.execRegion(l, edges, nil)
			exits = append(exits, res.exits...)
			edges = res.back
			if iter >= 3 && !vc.refute && !backFolds(edges) && !fr.loopLooksConstant(l) {
				break
			}
		}
		if ok {
			return exits
		}
		if vc.refute {
			return exits // bounded exploration: paths needing more iterations are dropped
		}
		// roll back and fall through to the invariant (the generic "anything assigned is arbitrary" one if none is given)
		vc.facts = vc.facts[:snapFacts]
		vc.obls = vc.obls[:snapObls]
		_ = snapAlloc
		if len(invs) == 0 {
			vc.warn("loop %d of %s: no invariant and trip count not constant: generic havoc invariant used", l.Ord, vc.prog.shortName(fr.fn))
		}
	}
	// invariant mode
	savedHead := fr.curLoopHead
	fr.curLoopHead = l.Head
	defer func() { fr.curLoopHead = savedHead }()
	var sts []*State
	for _, e := range entry {
		sts = append(sts, e.St)
	}
	st0 := fr.enterBlock(l.Head, entry) // env now holds entry values of the head phis
	if st0 == nil {
		return nil
	}
	for _, cl := range invs {
		t := fr.evalClause(cl, st0, fr.entryOr(st0), nil)
		vc.oblige(st0, "inv-init", fmt.Sprintf("loop%d/%s", l.Ord, cl.Label), fr.contract.clauseProps(cl), t, l.Head.Instrs[0].Pos())
	}
	// automatic invariant candidates (checked like written ones): a slice that every iteration of a range loop extends
	// by a fixed number of elements has length  entry length + (iterations done) * k
	type autoInv struct {
		phi      *ssa.Phi
		entryLen *Term
		k        int64
	}
	var autos []autoInv
	var riPhi *ssa.Phi
	for _, ins := range l.Head.Instrs {
		if phi, ok := ins.(*ssa.Phi); ok && phi.Comment == "rangeindex" {
			riPhi = phi
		}
	}
	if riPhi != nil {
		for _, ins := range l.Head.Instrs {
			phi, ok := ins.(*ssa.Phi)
			if !ok {
				break
			}
			if _, isSlice := phi.Type().Underlying().(*types.Slice); !isSlice {
				continue
			}
			k := int64(-1)
			good := true
			for i, pred := range l.Head.Preds {
				if !l.Blocks[pred] {
					continue
				}
				call, ok := phi.Edges[i].(*ssa.Call)
				if !ok {
					good = false
					break
				}
				b, isB := call.Call.Value.(*ssa.Builtin)
				if !isB || b.Name() != "append" || call.Call.Args[0] != ssa.Value(phi) {
					good = false
					break
				}
				sl, ok := call.Call.Args[1].(*ssa.Slice)
				if !ok {
					good = false
					break
				}
				al, ok := sl.X.(*ssa.Alloc)
				if !ok || sl.Low != nil || sl.High != nil {
					good = false
					break
				}
				at, ok := al.Type().(*types.Pointer).Elem().Underlying().(*types.Array)
				if !ok || (k >= 0 && k != at.Len()) {
					good = false
					break
				}
				k = at.Len()
			}
			if good && k > 0 {
				if sv, ok := fr.env[phi].(SliceV); ok {
					autos = append(autos, autoInv{phi, sv.Len, k})
				}
			}
		}
	}
	// range loops: the index stays below the length the loop was entered with (go/ssa: index = -1, then +1 while index+1 < len)
	var rangeLen ssa.Value
	if riPhi != nil {
		for _, ins := range l.Head.Instrs {
			if iff, ok := ins.(*ssa.If); ok {
				if b, ok := iff.Cond.(*ssa.BinOp); ok && b.Op == token.LSS {
					if _, have := fr.env[b.Y]; have && !l.Blocks[blockOf(b.Y)] {
						rangeLen = b.Y
					}
				}
			}
		}
	}
	autoTerm := func(a autoInv) *Term {
		cur := fr.env[a.phi].(SliceV)
		ri := fr.env[riPhi].(*Term)
		return Eq(cur.Len, Add(a.entryLen, Mul(Add(ri, IntLit(1)), IntLit(a.k))))
	}
	// havoc: head phis, locals and heaps assigned in the loop
	hst := st0.clone()
	hst.Reach = st0.Reach
	for _, ins := range l.Head.Instrs {
		phi, ok := ins.(*ssa.Phi)
		if !ok {
			break
		}
		fr.env[phi] = freshValue(phi.Type(), "phi."+phi.Comment, vc.allocN)
		if phi.Comment == "rangeindex" {
			// go/ssa lowers "range" over a slice to an index that starts at -1 and is only incremented
			vc.addFact(hst, Le(IntLit(-1), fr.env[phi].(*Term)))
		} else {
			vc.wellFormed(hst, fr.env[phi])
		}
	}
	if hasFrame {
		if fr.freshLoops == nil {
			fr.freshLoops = map[*Loop]bool{}
		}
		fr.freshLoops[l] = true
		fr.loopFrameFresh = true
	}
	fr.havocLoopTargets(l, hst)
	fr.loopFrameFresh = false
	for _, cl := range invs {
		vc.addFact(hst, fr.evalClause(cl, hst, fr.entryOr(hst), nil))
	}
	for _, a := range autos {
		vc.addFact(hst, autoTerm(a))
	}
	if rangeLen != nil {
		if lt, ok := fr.env[rangeLen].(*Term); ok {
			// holds on entry (index -1, lengths are not negative) and is kept by the loop's own guard
			vc.addFact(hst, Or(Lt(fr.env[riPhi].(*Term), lt), Lt(lt, IntLit(0))))
		}
	}
	// built-in facts for range loops: index phi >= -1
	res := fr.execRegion(l, nil, hst)
	for _, e := range res.back {
		if e.St == nil || e.St.Reach == TFalse {
			continue
		}
		// evaluate invariants with the head phis bound to the back-edge operands
		saved := map[ssa.Value]Value{}
		for k, v := range e.Vals {
			saved[k] = fr.env[k]
			fr.env[k] = v
		}
		for _, cl := range invs {
			t := fr.evalClause(cl, e.St, fr.entryOr(e.St), nil)
			vc.oblige(e.St, "inv-pres", fmt.Sprintf("loop%d/%s", l.Ord, cl.Label), fr.contract.clauseProps(cl), t, l.Head.Instrs[0].Pos())
		}
		for _, a := range autos {
			vc.oblige(e.St, "inv-pres", fmt.Sprintf("loop%d/auto-append-count:%s", l.Ord, a.phi.Comment), nil, autoTerm(a), l.Head.Instrs[0].Pos())
		}
		for k, v := range saved {
			fr.env[k] = v
		}
	}
	return res.exits
}

func (fr *Frame) entryOr(st *State) *State {
	if fr.entry != nil {
		return fr.entry
	}
	return st
}

func backFolds(edges []*Edge) bool {
	for _, e := range edges {
		if e.St != nil && e.St.Reach != TFalse {
			return false
		}
	}
	return true
}

// loopLooksConstant: a range loop whose bound is a literal keeps unrolling
func (fr *Frame) loopLooksConstant(l *Loop) bool {
	for _, ins := range l.Head.Instrs {
		if iff, ok := ins.(*ssa.If); ok {
			if b, ok := iff.Cond.(*ssa.BinOp); ok {
				if y, ok := fr.env[b.Y].(*Term); ok && y.Op == "int" {
					return true
				}
			}
		}
	}
	return false
}

func (fr *Frame) invariantsFor(l *Loop) []*Clause {
	if fr.contract == nil {
		return nil
	}
	var out []*Clause
	inlined := fr.fn != fr.vc.top
	for _, cl := range fr.contract.Clauses {
		if cl.Kind == "invariant" && cl.Loop == l.Ord {
			if inlined && len(cl.Props) > 0 && !hasString(cl.Props, "C09") {
				// a functional invariant (labelled with the properties it serves) belongs to the function's own proof; where the
				// body is inlined into a caller only the unlabelled / safety invariants summarise the loop
				continue
			}
			out = append(out, cl)
		}
	}
	return out
}

func hasString(xs []string, x string) bool {
	for _, y := range xs {
		if y == x {
			return true
		}
	}
	return false
}

// havocLoopTargets: everything the loop body may assign gets an arbitrary value
func (fr *Frame) havocLoopTargets(l *Loop, st *State) {
	vc := fr.vc
	heapKeys := map[string]bool{}
	all := false
	ghosts := false
	freshOnly := false
	inLoopAlloc := func(v ssa.Value) bool {
		for {
			switch x := v.(type) {
			case *ssa.Alloc:
				return l.Blocks[x.Block()]
			case *ssa.MakeSlice:
				return l.Blocks[x.Block()]
			case *ssa.FieldAddr:
				v = x.X
			case *ssa.IndexAddr:
				v = x.X
			case *ssa.Slice:
				v = x.X
			default:
				return false
			}
		}
	}
	for b := range l.Blocks {
		for _, ins := range b.Instrs {
			switch x := ins.(type) {
			case *ssa.Alloc:
				if !simpleLocal(x) {
					freshOnly = true
				}
			case *ssa.MakeSlice, *ssa.MakeMap, *ssa.MakeInterface, *ssa.MakeClosure:
				freshOnly = true
			case *ssa.Convert:
				freshOnly = true
			case *ssa.Store:
				if a, ok := rootAllocOf(x.Addr); ok && simpleLocal(a) {
					if c := fr.cells[a]; c != nil {
						if _, pre := st.Locals[c]; pre && !l.Blocks[a.Block()] {
							st.Locals[c] = freshValue(c.Alloc.Type().(*types.Pointer).Elem(), "loc."+c.Alloc.Comment, vc.allocN)
						}
					}
					continue
				}
				if inLoopAlloc(x.Addr) {
					freshOnly = true
					continue
				}
				fr.keysOfType(x.Val.Type(), heapKeys)
			case *ssa.MapUpdate:
				all = true
			case ssa.CallInstruction:
				com := x.Common()
				_, isFn := com.Value.(*ssa.Function)
				_, isMC := com.Value.(*ssa.MakeClosure)
				bi, isBI := com.Value.(*ssa.Builtin)
				if isBI {
					if bi.Name() == "append" {
						freshOnly = true
					} else if bi.Name() == "copy" || bi.Name() == "delete" {
						all = true
					}
					continue
				}
				if !com.IsInvoke() && !isFn && !isMC {
					// call through a function value: closures known to this run may write memory, unknown ones only the ghost trace
					ghosts = true
					sig := com.Value.Type().Underlying().(*types.Signature)
					for _, c := range vc.closures {
						if sameSigNoRecv(c.Fn.Signature, sig) && vc.prog.mayWrite(c.Fn, map[*ssa.Function]bool{}) {
							all = true
						}
					}
					continue
				}
				if fr.callMayWriteHeap(x) {
					all = true
				} else {
					freshOnly = true // the callee may allocate
				}
			}
		}
	}
	if freshOnly && !all {
		for k, h := range st.Heap {
			if !heapKeys[k] {
				// what earlier iterations stored into their own fresh objects: objects that existed before the loop, or objects of
				// the family reserved below for the allocations of earlier iterations - nothing allocated later
				st.Heap[k] = HavocAbove(h, vc.allocN, VarB(freshName(k+"@loopfresh"), h.S, vc.allocN+1))
			}
		}
		// allocation ids used by earlier iterations are unknown: reserve a family for them
		vc.allocN++
	}
	if ghosts && !all {
		for g := range st.Ghost {
			if strings.HasPrefix(g, "$mtok:") {
				continue // the order token of a map range is fixed when the range starts
			}
			st.Ghost[g] = Var(freshName("g."+g+"@loop"), st.Ghost[g].S)
		}
		for _, g := range []string{"tn", "trfn", "trres", "ncalls"} {
			if _, ok := st.Ghost[g]; !ok {
				s := SInt
				if g != "tn" {
					s = SArray(SInt, SInt)
				}
				st.Ghost[g] = Var(freshName("g."+g+"@loop"), s)
			}
		}
	}
	if all {
		for k := range st.Heap {
			heapKeys[k] = true
		}
		vc.warn("loop %d of %s havocs the whole heap (call or map update inside)", l.Ord, vc.prog.shortName(fr.fn))
	}
	// map ranges advanced inside the loop: the position counter is arbitrary but stays inside [-1, iterlen) at the head
	// (holds on entry: -1 and iterlen >= 0; kept by the loop's own guard, the body is entered only when the next index is below iterlen)
	for b := range l.Blocks {
		for _, ins := range b.Instrs {
			nx, ok := ins.(*ssa.Next)
			if !ok {
				continue
			}
			r := nx.Iter.(*ssa.Range)
			id := rangeID(r)
			tok, have := st.Ghost["$mtok:"+id]
			if !have {
				continue
			}
			if all {
				delete(st.Ghost, "$mtok:"+id) // the map itself may change: fall back to "some present key"
				delete(st.Ghost, "$mi:"+id)
				continue
			}
			mi := Var(freshName("g.$mi@loop"), SInt)
			st.Ghost["$mi:"+id] = mi
			vc.addFact(st, And(Le(IntLit(-1), mi), Lt(mi, App("iterlen", SInt, tok))))
		}
	}
	if len(heapKeys) > 0 {
		// stores inside the loop may have changed message objects any number of times
		old := st.ghost(vc, "msgver")
		nv := Var(freshName("g.msgver@loop"), SInt)
		st.Ghost["msgver"] = nv
		vc.addFact(st, Le(old, nv))
	}
	for k := range heapKeys {
		if fr.loopFrameFresh && !all {
			// declared frame: only objects allocated since the frame started may be written (checked at each store)
			st.Heap[k] = HavocAbove(st.heapGet(k), fr.entryAlloc, VarB(freshName(k+"@loop"), heapSort(k), vc.allocN+1000000))
			continue
		}
		st.Heap[k] = VarB(freshName(k+"@loop"), heapSort(k), vc.allocN+1000000)
	}
	if all {
		for g := range st.Ghost {
			st.Ghost[g] = Var(freshName("g."+g+"@loop"), st.Ghost[g].S)
		}
	}
}

func (fr *Frame) keysOfType(t types.Type, into map[string]bool) {
	if kindOf(t) == "struct" {
		s := t.Underlying().(*types.Struct)
		for i := 0; i < s.NumFields(); i++ {
			fr.keysOfType(s.Field(i).Type(), into)
		}
		return
	}
	if kindOf(t) == "tuple" || kindOf(t) == "nil" {
		return
	}
	ks, _ := cellKeys(t)
	for _, k := range ks {
		into[k] = true
	}
}

func (fr *Frame) callMayWriteHeap(c ssa.CallInstruction) bool {
	com := c.Common()
	if com.IsInvoke() {
		return true
	}
	switch f := com.Value.(type) {
	case *ssa.Builtin:
		return f.Name() == "append" || f.Name() == "copy" || f.Name() == "delete"
	case *ssa.Function:
		return fr.vc.prog.mayWrite(f, map[*ssa.Function]bool{})
	case *ssa.MakeClosure:
		return fr.vc.prog.mayWrite(f.Fn.(*ssa.Function), map[*ssa.Function]bool{})
	}
	return true
}

func blockOf(v ssa.Value) *ssa.BasicBlock {
	if ins, ok := v.(ssa.Instruction); ok {
		return ins.Block()
	}
	return nil
}

// ---------------------------------------------------------------------------------------------

func (fr *Frame) get(v ssa.Value) Value {
	switch x := v.(type) {
	case *ssa.Const:
		return fr.vc.constValue(x)
	case *ssa.Function:
		return IntLit(fr.vc.fnID(x))
	case *ssa.Global:
		return fr.vc.globalRef(x)
	case *ssa.Builtin:
		return IntLit(0)
	}
	if val, ok := fr.env[v]; ok {
		return val
	}
	panic(fmt.Sprintf("%s: no value for %s = %s", fr.fn, v.Name(), v))
}

func (vc *VC) fnID(f *ssa.Function) int64 {
	if id, ok := vc.fnIDs[f]; ok {
		return id
	}
	vc.nextFn++
	vc.fnIDs[f] = vc.nextFn
	vc.closures[vc.nextFn] = &Closure{Fn: f}
	return vc.nextFn
}

var globalIDs = map[*ssa.Global]int64{}

func (vc *VC) globalRef(g *ssa.Global) *Term {
	id, ok := globalIDs[g]
	if !ok {
		id = -int64(len(globalIDs) + 1)
		globalIDs[g] = id
	}
	return ObjLit(id)
}

func (vc *VC) constValue(c *ssa.Const) Value {
	t := c.Type()
	if c.Value == nil {
		return zeroValue(t)
	}
	switch kindOf(t) {
	case "bool":
		return BoolLit(constantBool(c))
	case "int":
		return IntLit(c.Int64())
	case "str":
		return StrLit(constantString(c))
	case "opaque":
		return Var("const!"+c.Value.ExactString(), SInt)
	}
	panic("constValue: " + c.String())
}

// mayWrite: may a call of f change module memory or ghost state (syntactic, transitive)
func (p *Program) mayWrite(f *ssa.Function, visiting map[*ssa.Function]bool) bool {
	if ct := p.contractFor(f); ct != nil {
		if ct.Pure || (ct.Lib && ct.Assigns == nil) || (ct.Assigns != nil && len(ct.Assigns) == 0) {
			return false
		}
		if ct.Lib {
			return true
		}
	}
	switch p.shortName(f) {
	case "fmt.Sprintf", "fmt.Errorf", "errors.New", "strings.HasPrefix", "strings.HasSuffix", "strings.TrimPrefix", "strings.TrimSuffix":
		return false
	}
	if !inModule(f) || len(f.Blocks) == 0 {
		return false // uncatalogued library call: assumed not to touch modelled state (A-LIB-DEFAULT)
	}
	if visiting[f] {
		return false
	}
	visiting[f] = true
	for _, b := range f.Blocks {
		for _, ins := range b.Instrs {
			switch x := ins.(type) {
			case *ssa.Store:
				if a, ok := x.Addr.(*ssa.Alloc); ok && simpleLocal(a) {
					continue
				}
				if fa, ok := x.Addr.(*ssa.FieldAddr); ok {
					if a, ok := rootAlloc(fa); ok && simpleLocal(a) {
						continue
					}
				}
				return true
			case *ssa.MapUpdate:
				return true
			case ssa.CallInstruction:
				com := x.Common()
				if com.IsInvoke() {
					return true
				}
				switch g := com.Value.(type) {
				case *ssa.Builtin:
					if g.Name() == "append" || g.Name() == "copy" || g.Name() == "delete" {
						return true
					}
				case *ssa.Function:
					if p.mayWrite(g, visiting) {
						return true
					}
				case *ssa.MakeClosure:
					if p.mayWrite(g.Fn.(*ssa.Function), visiting) {
						return true
					}
				default:
					return true
				}
			}
		}
	}
	return false
}

func rootAlloc(fa *ssa.FieldAddr) (*ssa.Alloc, bool) {
	switch x := fa.X.(type) {
	case *ssa.Alloc:
		return x, true
	case *ssa.FieldAddr:
		return rootAlloc(x)
	}
	return nil, false
}

func rootAllocOf(v ssa.Value) (*ssa.Alloc, bool) {
	switch x := v.(type) {
	case *ssa.Alloc:
		return x, true
	case *ssa.FieldAddr:
		return rootAllocOf(x.X)
	}
	return nil, false
}

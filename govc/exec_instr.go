package main

import (
	"fmt"
	"go/constant"
	"go/token"
	"go/types"
	"strings"

	"golang.org/x/tools/go/ssa"
)

func constantBool(c *ssa.Const) bool     { return constant.BoolVal(c.Value) }
func constantString(c *ssa.Const) string { return constant.StringVal(c.Value) }

// simpleLocal: a non-escaping Alloc whose address is used only by loads, stores and field selections
func simpleLocal(a *ssa.Alloc) bool {
	if a.Heap {
		return false
	}
	var ok func(v ssa.Value) bool
	ok = func(v ssa.Value) bool {
		refs := v.Referrers()
		if refs == nil {
			return true
		}
		for _, r := range *refs {
			switch x := r.(type) {
			case *ssa.UnOp:
				if x.Op != token.MUL {
					return false
				}
			case *ssa.Store:
				if x.Addr != v {
					return false
				}
			case *ssa.FieldAddr:
				if !ok(x) {
					return false
				}
			case *ssa.DebugRef:
			default:
				return false
			}
		}
		return true
	}
	if _, isArr := a.Type().(*types.Pointer).Elem().Underlying().(*types.Array); isArr {
		return false
	}
	return ok(a)
}

func (fr *Frame) localCellOf(v ssa.Value) *LocalCell {
	switch x := v.(type) {
	case *ssa.Alloc:
		return fr.cells[x]
	case *ssa.FieldAddr:
		return fr.localCellOf(x.X)
	}
	return nil
}

// execBlock runs the instructions of b and returns the outgoing edges
func (fr *Frame) execBlock(b *ssa.BasicBlock, st *State, l *Loop) []*Edge {
	return fr.execInstrs(b, 0, st, l)
}

// execInstrs runs the instructions of b from index start on. A call of an inlined function whose return edges fall into
// the groups "returned true" / "returned false" is not merged: the rest of the block is executed once per group, so
// that a branch on the result folds and the two outcomes meet only where control flow joins them anyway.
func (fr *Frame) execInstrs(b *ssa.BasicBlock, start int, st *State, l *Loop) []*Edge {
	vc := fr.vc
	for idx := start; idx < len(b.Instrs); idx++ {
		ins := b.Instrs[idx]
		if st.Reach == TFalse {
			return nil
		}
		if call, isCall := ins.(*ssa.Call); isCall {
			vc.pendingAlt = nil
			vc.pendingMore = nil
			fr.env[call] = fr.call(call, st)
			if alt := vc.pendingAlt; alt != nil {
				alts := append(append([]*retEdge{}, vc.pendingMore...), alt)
				vc.pendingAlt = nil
				vc.pendingMore = nil
				// the rest of the block runs once per group; later blocks see the call result and the values this block
				// defines after the call as a case distinction over the groups
				accVal := fr.env[call]
				accReach := st.Reach
				out := fr.execInstrs(b, idx+1, st, l)
				accDefs := map[ssa.Value]Value{}
				for _, nx := range b.Instrs[idx+1:] {
					if v, ok := nx.(ssa.Value); ok {
						if val, have := fr.env[v]; have {
							accDefs[v] = val
						}
					}
				}
				for _, a := range alts {
					fr.env[call] = a.Val
					out = append(out, fr.execInstrs(b, idx+1, a.St, l)...)
					accVal = iteValue(accReach, accVal, a.Val)
					for _, nx := range b.Instrs[idx+1:] {
						v, ok := nx.(ssa.Value)
						if !ok {
							continue
						}
						av, have := fr.env[v]
						mv, had := accDefs[v]
						switch {
						case have && had && !sameValue(av, mv):
							if merged, ok := tryIte(accReach, mv, av); ok {
								accDefs[v] = merged
							}
						case have && !had:
							accDefs[v] = av
						}
					}
					accReach = Or(accReach, a.St.Reach)
				}
				fr.env[call] = accVal
				for v, mv := range accDefs {
					fr.env[v] = mv
				}
				return out
			}
			continue
		}
		switch x := ins.(type) {
		case *ssa.Phi, *ssa.DebugRef:
			// phis were evaluated on entry
		case *ssa.Alloc:
			et := x.Type().(*types.Pointer).Elem()
			if at, isArr := et.Underlying().(*types.Array); isArr {
				r := vc.alloc()
				if at.Len() <= 64 {
					for i := int64(0); i < at.Len(); i++ {
						st.store(Elem(r, IntLit(i)), at.Elem(), zeroValue(at.Elem()))
					}
				}
				fr.env[x] = r
			} else if simpleLocal(x) {
				c := fr.cells[x]
				if c == nil {
					vc.cellN++
					c = &LocalCell{Alloc: x, ID: vc.cellN}
					fr.cells[x] = c
				}
				st.Locals[c] = zeroValue(et)
				fr.env[x] = LocalPtr{Cell: c}
			} else {
				r := vc.alloc()
				st.store(r, et, zeroValue(et))
				fr.env[x] = r
				if facts, ok := vc.prog.specs.OnAlloc[typeKey(et)]; ok {
					for _, fe := range facts {
						ev := &SpecEval{vc: vc, fr: fr, names: map[string]SVal{"it": {V: r, T: x.Type()}}, cur: st, old: st}
						vc.addFact(st, ev.evalBool(fe))
					}
				}
			}
		case *ssa.BinOp:
			fr.env[x] = fr.binop(x, st)
		case *ssa.UnOp:
			fr.env[x] = fr.unop(x, st)
		case *ssa.Store:
			fr.storeTo(st, x.Addr, x.Val.Type(), fr.get(x.Val), x.Pos(), fr.vc.prog.isInitStore(x))
		case *ssa.FieldAddr:
			base := fr.get(x.X)
			st0 := x.X.Type().Underlying().(*types.Pointer).Elem()
			if lp, ok := base.(LocalPtr); ok {
				fr.env[x] = LocalPtr{Cell: lp.Cell, Path: append(append([]int{}, lp.Path...), x.Field)}
			} else {
				p := base.(*Term)
				vc.check(st, "nil", fr.label(x.X)+"."+st0.Underlying().(*types.Struct).Field(x.Field).Name(), Not(Eq(p, TNil)), x.Pos())
				fr.env[x] = Sub(p, fieldID(st0, x.Field))
			}
		case *ssa.Field:
			fr.env[x] = fr.get(x.X).(StructV).F[x.Field]
		case *ssa.IndexAddr:
			fr.env[x] = fr.indexAddr(x, st)
		case *ssa.Index:
			fr.env[x] = fr.index(x, st)
		case *ssa.Extract:
			fr.env[x] = fr.get(x.Tuple).(TupleV)[x.Index]
		case *ssa.MakeInterface:
			fr.env[x] = fr.makeIface(st, x.X.Type(), fr.get(x.X))
		case *ssa.ChangeInterface:
			fr.env[x] = fr.get(x.X)
		case *ssa.ChangeType:
			fr.env[x] = fr.get(x.X)
		case *ssa.Convert:
			fr.env[x] = fr.convert(x, st)
		case *ssa.TypeAssert:
			fr.env[x] = fr.typeAssert(x, st)
		case *ssa.MakeClosure:
			fn := x.Fn.(*ssa.Function)
			var bs []Value
			for _, b := range x.Bindings {
				bs = append(bs, fr.get(b))
			}
			vc.nextFn++
			vc.closures[vc.nextFn] = &Closure{Fn: fn, Bindings: bs}
			fr.env[x] = IntLit(vc.nextFn)
		case *ssa.MakeSlice:
			r := vc.alloc()
			ln := fr.get(x.Len).(*Term)
			fr.env[x] = SliceV{r, ln}
			fr.zeroSlice(st, r, ln, x.Type().Underlying().(*types.Slice).Elem())
		case *ssa.MakeMap:
			r := vc.alloc()
			st.Ghost["maplen:"+r.String()] = IntLit(0)
			fr.env[x] = r
		case *ssa.Slice:
			fr.env[x] = fr.sliceOp(x, st)
		case *ssa.Call:
			fr.env[x] = fr.call(x, st)
		case *ssa.Defer:
			fr.deferCall(x, st)
		case *ssa.RunDefers:
			fr.runDefers(st)
		case *ssa.Lookup:
			fr.env[x] = fr.lookup(x, st)
		case *ssa.MapUpdate:
			fr.mapUpdate(x, st)
		case *ssa.Range:
			fr.env[x] = fr.rangeInit(x, st)
		case *ssa.Next:
			fr.env[x] = fr.rangeNext(x, st)
		case *ssa.Return:
			var v Value
			switch len(x.Results) {
			case 0:
				v = TupleV{}
			case 1:
				v = fr.get(x.Results[0])
			default:
				var tv TupleV
				for _, r := range x.Results {
					tv = append(tv, fr.get(r))
				}
				v = tv
			}
			fr.rets = append(fr.rets, &retEdge{St: st, Val: v})
			return nil
		case *ssa.Panic:
			vc.oblige(st, "panic", "explicit-panic", nil, TFalse, x.Pos())
			return nil
		case *ssa.Jump:
			return []*Edge{fr.mkEdge(b, b.Succs[0], st)}
		case *ssa.If:
			c := fr.get(x.Cond).(*Term)
			ts, fs := st, st.clone()
			ts.Reach = And(st.Reach, c)
			fs.Reach = And(fs.Reach, Not(c))
			var out []*Edge
			if ts.Reach != TFalse {
				out = append(out, fr.mkEdge(b, b.Succs[0], ts))
			}
			if fs.Reach != TFalse {
				out = append(out, fr.mkEdge(b, b.Succs[1], fs))
			}
			return out
		default:
			vc.oblige(st, "subset", fmt.Sprintf("unsupported-instruction/%T", ins), nil, TFalse, ins.Pos())
			return nil
		}
	}
	return nil
}

// label: a readable name for an SSA value used in obligation names (never a line number)
func (fr *Frame) label(v ssa.Value) string {
	switch x := v.(type) {
	case *ssa.Parameter:
		return x.Name()
	case *ssa.FreeVar:
		return x.Name()
	case *ssa.UnOp:
		if x.Op == token.MUL {
			return fr.label(x.X)
		}
	case *ssa.FieldAddr:
		return fr.label(x.X) + "." + x.X.Type().Underlying().(*types.Pointer).Elem().Underlying().(*types.Struct).Field(x.Field).Name()
	case *ssa.Alloc:
		if x.Comment != "" {
			return x.Comment
		}
	case *ssa.Call:
		if f := x.Call.StaticCallee(); f != nil {
			return f.Name() + "()"
		}
		if x.Call.IsInvoke() {
			return x.Call.Method.Name() + "()"
		}
		return "call()"
	case *ssa.Extract:
		return fr.label(x.Tuple)
	case *ssa.Phi:
		return x.Comment
	case *ssa.IndexAddr:
		return fr.label(x.X) + "[]"
	case *ssa.Global:
		return x.Name()
	case *ssa.TypeAssert:
		return fr.label(x.X)
	}
	return v.Name()
}

func (fr *Frame) storeTo(st *State, addr ssa.Value, t types.Type, v Value, pos token.Pos, initStore bool) {
	a := fr.get(addr)
	if lp, ok := a.(LocalPtr); ok {
		st.Locals[lp.Cell] = setPath(st.Locals[lp.Cell], lp.Path, v)
		return
	}
	p := a.(*Term)
	fr.vc.check(st, "nil", "store:"+fr.label(addr), Not(Eq(p, TNil)), pos)
	fr.frameCheck(st, p, t, fr.label(addr), pos)
	if fr.freshLoops != nil {
		if ins, ok := addr.(ssa.Instruction); ok {
			if l := fr.loops.Inner[ins.Block()]; l != nil {
				for m := l; m != nil; m = m.Parent {
					if fr.freshLoops[m] {
						fr.vc.oblige(st, "frame", "loop-store-to-fresh-object:"+fr.label(addr), nil, Le(IntLit(fr.entryAlloc), RootID(p)), pos)
						break
					}
				}
			}
		}
	}
	if !initStore && messageValueType(t) && messageStore(addr) {
		// ghost version counter of the XML message objects: serialisations taken at the same version are equal
		st.Ghost["msgver"] = Add(st.ghost(fr.vc, "msgver"), IntLit(1))
	}
	st.store(p, t, v)
}

// isInitStore: a store that initialises an object this function has just allocated and that nothing else can refer
// to yet: it follows the Alloc in the same block, its address is a field / element chain rooted at the Alloc, and no
// instruction in between has used the Alloc for anything but such address computations (composite and slice literals).
// Such stores cannot change the content of any message that exists already; linking the object into one is a store
// of its own.
func (p *Program) isInitStore(s *ssa.Store) bool {
	if p.initStores == nil {
		p.initStores = map[*ssa.Store]bool{}
		p.initDone = map[*ssa.Function]bool{}
	}
	f := s.Parent()
	if !p.initDone[f] {
		p.initDone[f] = true
		for _, b := range f.Blocks {
			for i, ins := range b.Instrs {
				a, ok := ins.(*ssa.Alloc)
				if !ok {
					continue
				}
				derived := map[ssa.Value]bool{a: true}
			scan:
				for _, nx := range b.Instrs[i+1:] {
					switch x := nx.(type) {
					case *ssa.FieldAddr:
						if derived[x.X] {
							derived[x] = true
						}
					case *ssa.IndexAddr:
						if derived[x.X] {
							derived[x] = true
						}
					case *ssa.Store:
						if derived[x.Val] {
							break scan // the object escapes
						}
						if derived[x.Addr] {
							p.initStores[x] = true
						}
					case *ssa.DebugRef:
					default:
						for _, op := range nx.Operands(nil) {
							if *op != nil && derived[*op] {
								break scan
							}
						}
					}
				}
			}
		}
	}
	return p.initStores[s]
}

// messageValueType: can a value of type t be (part of) the content of an XML message struct? Those hold strings,
// xml.Name, and pointers / slices / structs of the message packages; never interfaces, functions, maps or foreign types.
func messageValueType(t types.Type) bool {
	for {
		switch u := t.(type) {
		case *types.Pointer:
			t = u.Elem()
			continue
		case *types.Slice:
			t = u.Elem()
			continue
		case *types.Array:
			t = u.Elem()
			continue
		}
		break
	}
	if n, ok := t.(*types.Named); ok && n.Obj().Pkg() != nil {
		path := n.Obj().Pkg().Path()
		if strings.HasPrefix(path, modulePrefix) {
			return strings.Contains(path, "/pkg/provider/xml")
		}
		return path == "encoding/xml"
	}
	switch t.Underlying().(type) {
	case *types.Interface, *types.Signature, *types.Map, *types.Chan:
		return false
	}
	return true
}

// messageStore: may a store through addr change the content of an XML message tree (types of pkg/provider/xml/...)?
// Stores into objects of other module types (provider.Response, checker.Checker, ...), into captured variables and
// into globals cannot; everything else (message structs, slice elements, pointers of unknown origin) is assumed to.
func messageStore(addr ssa.Value) bool {
	isMsgType := func(t types.Type) bool {
		for {
			if p, ok := t.Underlying().(*types.Pointer); ok {
				t = p.Elem()
				continue
			}
			break
		}
		if n, ok := t.(*types.Named); ok && n.Obj().Pkg() != nil {
			path := n.Obj().Pkg().Path()
			if strings.HasPrefix(path, modulePrefix) {
				return strings.Contains(path, "/pkg/provider/xml")
			}
			return false // library types (bytes.Buffer, url.URL, ...) are not part of message trees
		}
		return true // basic types, unnamed composites: unknown container
	}
	switch x := addr.(type) {
	case *ssa.FieldAddr:
		return isMsgType(x.X.Type())
	case *ssa.IndexAddr:
		switch u := x.X.Type().Underlying().(type) {
		case *types.Slice:
			return isMsgType(u.Elem())
		case *types.Pointer:
			if at, ok := u.Elem().Underlying().(*types.Array); ok {
				return isMsgType(at.Elem())
			}
		}
		return true
	case *ssa.Alloc:
		// a variable cell: only a message when the variable itself is a message struct
		et := x.Type().(*types.Pointer).Elem()
		if _, isPtr := et.Underlying().(*types.Pointer); isPtr {
			return false
		}
		if _, isNamed := et.(*types.Named); isNamed {
			return isMsgType(et)
		}
		return false
	case *ssa.Global, *ssa.FreeVar:
		return false
	}
	if p, ok := addr.Type().Underlying().(*types.Pointer); ok {
		if _, isPtr := p.Elem().Underlying().(*types.Pointer); isPtr {
			return false
		}
		return isMsgType(p.Elem())
	}
	return true
}

func (fr *Frame) unop(x *ssa.UnOp, st *State) Value {
	switch x.Op {
	case token.MUL:
		if g, ok := x.X.(*ssa.Global); ok {
			// a package-level variable that nothing in the module assigns has its initial literal value
			if c := fr.vc.prog.globalConst(g); c != nil {
				return fr.vc.constValue(c)
			}
		}
		a := fr.get(x.X)
		if lp, ok := a.(LocalPtr); ok {
			return getPath(st.Locals[lp.Cell], lp.Path)
		}
		p := a.(*Term)
		fr.vc.check(st, "nil", "load:"+fr.label(x.X), Not(Eq(p, TNil)), x.Pos())
		v := st.load(p, x.Type())
		fr.vc.wellFormed(st, v)
		return v
	case token.NOT:
		return Not(fr.get(x.X).(*Term))
	case token.SUB:
		return SubI(IntLit(0), fr.get(x.X).(*Term))
	}
	fr.vc.oblige(st, "subset", "unsupported-unop/"+x.Op.String(), nil, TFalse, x.Pos())
	return freshValue(x.Type(), "unop", fr.vc.allocN)
}

func (fr *Frame) binop(x *ssa.BinOp, st *State) Value {
	a, b := fr.get(x.X), fr.get(x.Y)
	k := kindOf(x.X.Type())
	switch x.Op {
	case token.EQL, token.NEQ:
		var e *Term
		if k == "nil" || kindOf(x.Y.Type()) == "nil" {
			// comparison with untyped nil
			other, ot := a, x.X.Type()
			if k == "nil" {
				other, ot = b, x.Y.Type()
			}
			e = isZero(other, ot)
		} else {
			e = eqValue(a, b)
		}
		if x.Op == token.NEQ {
			return Not(e)
		}
		return e
	}
	switch k {
	case "int":
		ta, tb := a.(*Term), b.(*Term)
		switch x.Op {
		case token.ADD:
			return Add(ta, tb)
		case token.SUB:
			return SubI(ta, tb)
		case token.MUL:
			return Mul(ta, tb)
		case token.LSS:
			return Lt(ta, tb)
		case token.LEQ:
			return Le(ta, tb)
		case token.GTR:
			return Lt(tb, ta)
		case token.GEQ:
			return Le(tb, ta)
		case token.QUO:
			fr.vc.check(st, "div", "divide-by-zero", Not(Eq(tb, IntLit(0))), x.Pos())
			return App("div", SInt, ta, tb)
		case token.REM:
			fr.vc.check(st, "div", "divide-by-zero", Not(Eq(tb, IntLit(0))), x.Pos())
			return App("mod", SInt, ta, tb)
		}
		return App("intop_"+x.Op.String(), SInt, ta, tb)
	case "str":
		ta, tb := a.(*Term), b.(*Term)
		switch x.Op {
		case token.ADD:
			return Concat(ta, tb)
		case token.LSS:
			return App("strlt", SBool, ta, tb)
		case token.GTR:
			return App("strlt", SBool, tb, ta)
		case token.LEQ:
			return Not(App("strlt", SBool, tb, ta))
		case token.GEQ:
			return Not(App("strlt", SBool, ta, tb))
		}
	case "bool":
		ta, tb := a.(*Term), b.(*Term)
		switch x.Op {
		case token.AND, token.LAND:
			return And(ta, tb)
		case token.OR, token.LOR:
			return Or(ta, tb)
		}
	case "opaque":
		ta, tb := a.(*Term), b.(*Term)
		return App("op_"+x.Op.String()+"_"+typeKey(x.X.Type()), scalarSort(kindOf(x.Type())), ta, tb)
	}
	fr.vc.oblige(st, "subset", "unsupported-binop/"+x.Op.String()+"/"+k, nil, TFalse, x.Pos())
	return freshValue(x.Type(), "binop", fr.vc.allocN)
}

func isZero(v Value, t types.Type) *Term {
	switch x := v.(type) {
	case *Term:
		switch x.S {
		case SRef:
			return Eq(x, TNil)
		case SInt:
			return Eq(x, IntLit(0))
		}
	case SliceV:
		return Eq(x.Base, TNil)
	case IfaceV:
		return Eq(x.Tag, IntLit(0))
	}
	panic(fmt.Sprintf("isZero %T", v))
}

func (fr *Frame) indexAddr(x *ssa.IndexAddr, st *State) Value {
	base := fr.get(x.X)
	i := fr.get(x.Index).(*Term)
	switch b := base.(type) {
	case SliceV:
		fr.vc.check(st, "bounds", fr.label(x.X)+"[]", And(Le(IntLit(0), i), Lt(i, b.Len)), x.Pos())
		return Elem(b.Base, i)
	case *Term:
		if pt, ok := x.X.Type().Underlying().(*types.Pointer); ok {
			if at, ok := pt.Elem().Underlying().(*types.Array); ok {
				fr.vc.check(st, "nil", fr.label(x.X), Not(Eq(b, TNil)), x.Pos())
				fr.vc.check(st, "bounds", fr.label(x.X)+"[]", And(Le(IntLit(0), i), Lt(i, IntLit(at.Len()))), x.Pos())
				return Elem(b, i)
			}
		}
	}
	fr.vc.oblige(st, "subset", "indexaddr-on-array", nil, TFalse, x.Pos())
	return VarB(freshName("idx"), SRef, fr.vc.allocN)
}

func (fr *Frame) index(x *ssa.Index, st *State) Value {
	fr.vc.oblige(st, "subset", "index-on-string-or-array", nil, TFalse, x.Pos())
	return freshValue(x.Type(), "index", fr.vc.allocN)
}

func (fr *Frame) zeroSlice(st *State, base, ln *Term, et types.Type) {
	if ln.Op == "int" && ln.Int <= 64 {
		for i := int64(0); i < ln.Int; i++ {
			st.store(Elem(base, IntLit(i)), et, zeroValue(et))
		}
		return
	}
	// unknown length: cells of a fresh object are unconstrained here; record zero-initialisation as a quantified fact for scalar elements
	if kindOf(et) != "struct" {
		keys, _ := cellKeys(et)
		zv := zeroValue(et)
		j := BoundVar("j!z", SInt)
		switch z := zv.(type) {
		case *Term:
			fr.vc.addFact(st, Forall([]*Term{j}, Eq(Select(st.heapGet(keys[0]), Elem(base, j)), z)))
		}
	}
}

func (fr *Frame) sliceOp(x *ssa.Slice, st *State) Value {
	base := fr.get(x.X)
	lowZero := x.Low == nil
	if x.Low != nil {
		if lt, ok := fr.get(x.Low).(*Term); ok && lt.Op == "int" && lt.Int == 0 {
			lowZero = true
		}
	}
	if lowZero && x.Max == nil {
		if s, ok := base.(SliceV); ok {
			if x.High == nil {
				return s
			}
			hi := fr.get(x.High).(*Term)
			fr.vc.check(st, "bounds", fr.label(x.X)+"[:h]", And(Le(IntLit(0), hi), Le(hi, App("capof", SInt, s.Base, s.Len))), x.Pos())
			fr.vc.addFact(st, Le(s.Len, App("capof", SInt, s.Base, s.Len)))
			return SliceV{s.Base, hi}
		}
		if pt, ok := x.X.Type().Underlying().(*types.Pointer); ok {
			if at, ok := pt.Elem().Underlying().(*types.Array); ok {
				if x.High == nil {
					return SliceV{base.(*Term), IntLit(at.Len())}
				}
				hi := fr.get(x.High).(*Term)
				fr.vc.check(st, "bounds", fr.label(x.X)+"[:h]", And(Le(IntLit(0), hi), Le(hi, IntLit(at.Len()))), x.Pos())
				return SliceV{base.(*Term), hi}
			}
		}
	}
	if kindOf(x.X.Type()) == "str" {
		s := base.(*Term)
		lo, hi := IntLit(0), StrLen(s)
		if x.Low != nil {
			lo = fr.get(x.Low).(*Term)
		}
		if x.High != nil {
			hi = fr.get(x.High).(*Term)
		}
		fr.vc.check(st, "bounds", fr.label(x.X)+"[:]", And(Le(IntLit(0), lo), Le(lo, hi), Le(hi, StrLen(s))), x.Pos())
		return App("substr", SStr, s, lo, hi)
	}
	fr.vc.oblige(st, "subset", "slice-expression", nil, TFalse, x.Pos())
	return freshValue(x.Type(), "slice", fr.vc.allocN)
}

// ---- interfaces ----

var typeTags = map[string]int64{}
var typeTagTypes = map[int64]types.Type{}

func typeTag(t types.Type) int64 {
	k := types.TypeString(t, nil)
	if id, ok := typeTags[k]; ok {
		return id
	}
	id := int64(len(typeTags) + 1)
	typeTags[k] = id
	typeTagTypes[id] = t
	return id
}

func (fr *Frame) makeIface(st *State, t types.Type, v Value) Value {
	if types.IsInterface(t) {
		return v
	}
	tag := IntLit(typeTag(t))
	switch kindOf(t) {
	case "ref":
		return IfaceV{tag, v.(*Term)}
	case "nil":
		return IfaceV{IntLit(0), TNil}
	}
	// box the value
	box := fr.vc.alloc()
	if lp, ok := v.(LocalPtr); ok {
		_ = lp
		panic("boxing a local pointer")
	}
	st.store(box, t, v)
	return IfaceV{tag, box}
}

func (fr *Frame) unbox(st *State, iv IfaceV, t types.Type) Value {
	if kindOf(t) == "ref" {
		return iv.Val
	}
	return st.load(iv.Val, t)
}

func (fr *Frame) typeAssert(x *ssa.TypeAssert, st *State) Value {
	iv := fr.get(x.X).(IfaceV)
	at := x.AssertedType
	var ok *Term
	var val Value
	if types.IsInterface(at) {
		// interface-to-interface: succeeds iff non-nil and the dynamic type implements it (unknown => uninterpreted)
		ok = And(Not(Eq(iv.Tag, IntLit(0))), App("implements_"+typeKey(at), SBool, iv.Tag))
		val = iv
	} else {
		ok = Eq(iv.Tag, IntLit(typeTag(at)))
		val = fr.unbox(st, iv, at)
	}
	if x.CommaOk {
		return TupleV{iteValue(ok, val, zeroValue(at)), ok}
	}
	fr.vc.check(st, "assert", fr.label(x.X)+".("+typeKey(at)+")", ok, x.Pos())
	return val
}

func (fr *Frame) convert(x *ssa.Convert, st *State) Value {
	from, to := x.X.Type(), x.Type()
	v := fr.get(x.X)
	fk, tk := kindOf(from), kindOf(to)
	switch {
	case fk == tk && fk != "slice":
		return v
	case fk == "str" && tk == "slice": // []byte(s)
		s := v.(*Term)
		r := fr.vc.alloc()
		st.Heap["C:bytes"] = Store(st.heapGet("C:bytes"), r, s)
		return SliceV{r, StrLen(s)}
	case fk == "slice" && tk == "str": // string(b)
		b := v.(SliceV)
		return Ite(Eq(b.Base, TNil), StrLit(""), Select(st.heapGet("C:bytes"), b.Base))
	case fk == "slice" && tk == "slice":
		return v
	case fk == "int" && tk == "str":
		return App("runestr", SStr, v.(*Term))
	case fk == "int" && tk == "opaque", fk == "opaque" && tk == "int", fk == "opaque" && tk == "opaque":
		return App("conv_"+typeKey(from)+"_"+typeKey(to), SInt, v.(*Term))
	}
	fr.vc.oblige(st, "subset", "unsupported-conversion/"+typeKey(from)+"->"+typeKey(to), nil, TFalse, x.Pos())
	return freshValue(to, "conv", fr.vc.allocN)
}

// ---- maps (abstract) ----

func mapKeyTerm(v Value) *Term {
	switch x := v.(type) {
	case *Term:
		if x.S == SStr {
			return x
		}
		return App("keyof_"+x.S.String(), SStr, x)
	}
	return Var(freshName("mapkey"), SStr)
}

// Map contents: M:<type>#has : Ref -> key-indexed presence, M:<type>#val : value cells addressed by sub-like refs.
func (fr *Frame) mapCell(m *Term, key *Term) *Term {
	return MKey(m, key)
}

func (fr *Frame) lookup(x *ssa.Lookup, st *State) Value {
	if kindOf(x.X.Type()) == "str" {
		fr.vc.oblige(st, "subset", "string-index", nil, TFalse, x.Pos())
		return freshValue(x.Type(), "lk", fr.vc.allocN)
	}
	m := fr.get(x.X).(*Term)
	mt := x.X.Type().Underlying().(*types.Map)
	key := mapKeyTerm(fr.get(x.Index))
	cell := fr.mapCell(m, key)
	has := Select(st.heapGet("M:has"), cell)
	val := st.load(cell, mt.Elem())
	val = iteValue(has, val, zeroValue(mt.Elem()))
	if x.CommaOk {
		return TupleV{val, has}
	}
	return val
}

func (fr *Frame) mapUpdate(x *ssa.MapUpdate, st *State) {
	m := fr.get(x.Map).(*Term)
	mt := x.Map.Type().Underlying().(*types.Map)
	fr.vc.check(st, "nil", "mapupdate:"+fr.label(x.Map), Not(Eq(m, TNil)), x.Pos())
	key := mapKeyTerm(fr.get(x.Key))
	cell := fr.mapCell(m, key)
	fr.frameCheck(st, cell, mt.Elem(), "map:"+fr.label(x.Map), x.Pos())
	st.Heap["M:has"] = Store(st.heapGet("M:has"), cell, TTrue)
	st.store(cell, mt.Elem(), fr.get(x.Value))
}

// range over a map. For string-keyed maps the iteration is described by an ORDER TOKEN tok (ghost, fresh for every execution
// of the range statement): iterlen(tok) keys are visited, the j-th is mapkeyat(tok, j); the token enumerates exactly the keys
// present when the loop starts, each once (iterOrderTerm). The ghost counter $mi is the index of the last key handed out
// (-1 before the first Next), like the index of a slice range. Other maps: Next yields an arbitrary present key.
func rangeID(r *ssa.Range) string {
	return r.Parent().String() + ":" + r.Name()
}

func iterOrderTerm(tok, m, has *Term) *Term {
	n := App("iterlen", SInt, tok)
	i := BoundVar(freshName("io.i"), SInt)
	j := BoundVar(freshName("io.j"), SInt)
	k := BoundVar(freshName("io.k"), SStr)
	keyat := func(x *Term) *Term { return App("mapkeyat", SStr, tok, x) }
	pos := App("iterpos", SInt, tok, k)
	return And(
		Le(IntLit(0), n),
		Implies(Eq(m, TNil), Eq(n, IntLit(0))),
		Forall([]*Term{j}, Implies(And(Le(IntLit(0), j), Lt(j, n)), Select(has, MKey(m, keyat(j))))),
		Forall([]*Term{i, j}, Implies(And(Le(IntLit(0), i), Lt(i, j), Lt(j, n)), Not(Eq(keyat(i), keyat(j))))),
		Forall([]*Term{k}, Implies(Select(has, MKey(m, k)), And(Le(IntLit(0), pos), Lt(pos, n), Eq(keyat(pos), k)))),
	)
}

func stringKeyed(t types.Type) bool {
	mt, ok := t.Underlying().(*types.Map)
	if !ok {
		return false
	}
	b, ok := mt.Key().Underlying().(*types.Basic)
	return ok && b.Info()&types.IsString != 0
}

func (fr *Frame) rangeInit(x *ssa.Range, st *State) Value {
	if kindOf(x.X.Type()) == "str" {
		fr.vc.oblige(st, "subset", "range-over-string", nil, TFalse, x.Pos())
	}
	if stringKeyed(x.X.Type()) {
		if m, ok := fr.get(x.X).(*Term); ok {
			tok := Var(freshName("mtok"), SInt)
			id := rangeID(x)
			st.Ghost["$mtok:"+id] = tok
			st.Ghost["$mi:"+id] = IntLit(-1)
			fr.vc.addFact(st, iterOrderTerm(tok, m, st.heapGet("M:has")))
		}
	}
	return fr.get(x.X)
}

func (fr *Frame) rangeNext(x *ssa.Next, st *State) Value {
	r := x.Iter.(*ssa.Range)
	mt, isMap := r.X.Type().Underlying().(*types.Map)
	tu := x.Type().(*types.Tuple)
	ok := Var(freshName("next.ok"), SBool)
	if !isMap {
		return TupleV{ok, freshValue(tu.At(1).Type(), "next.k", fr.vc.allocN), freshValue(tu.At(2).Type(), "next.v", fr.vc.allocN)}
	}
	m := fr.get(r.X).(*Term)
	if Eq(m, TNil) == TTrue {
		// ranging over a nil map yields nothing
		return TupleV{TFalse, zeroValue(mt.Key()), zeroValue(mt.Elem())}
	}
	var kv Value
	id := rangeID(r)
	if tok, have := st.Ghost["$mtok:"+id]; have && stringKeyed(r.X.Type()) {
		mi := Add(st.Ghost["$mi:"+id], IntLit(1))
		st.Ghost["$mi:"+id] = mi
		ok = Lt(mi, App("iterlen", SInt, tok))
		kv = App("mapkeyat", SStr, tok, mi)
	} else {
		kv = freshValue(mt.Key(), "next.k", fr.vc.allocN)
	}
	key := mapKeyTerm(kv)
	cell := fr.mapCell(m, key)
	// a nil map has no entries; a yielded key is present
	fr.vc.addFact(st, Implies(ok, And(Not(Eq(m, TNil)), Select(st.heapGet("M:has"), cell))))
	var val Value = zeroValue(mt.Elem())
	if tu.At(2).Type() != nil && kindOf(tu.At(2).Type()) != "nil" {
		val = st.load(cell, mt.Elem())
	}
	return TupleV{ok, kv, val}
}

func sameValue(a, b Value) bool {
	ta, ok1 := a.(*Term)
	tb, ok2 := b.(*Term)
	return ok1 && ok2 && ta == tb
}

func tryIte(c *Term, a, b Value) (v Value, ok bool) {
	defer func() {
		if recover() != nil {
			v, ok = nil, false
		}
	}()
	return iteValue(c, a, b), true
}

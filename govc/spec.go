package main

// Contract files: //@ blocks in /repo/pkg/**/contracts_verif.go (build tag verif) and
// assumed library contracts in /verif/contracts/lib/*.spec (same language, no //@ prefix).

import (
	"fmt"
	"os"
	"path/filepath"
	"regexp"
	"sort"
	"strconv"
	"strings"
)

type Clause struct {
	Kind  string // requires ensures invariant canary cover
	Label string
	Props []string
	Loop  int
	Expr  *SExpr
	Src   string
	Where string
}

type Contract struct {
	Key     string
	Lib     bool // assumed (library / interface method implemented by the embedder)
	Params  []string
	Results []string
	Clauses []*Clause
	Assigns []string // heap keys / ghost names havoced by a call; "*" = everything; nil = nothing
	Fresh   []string // result names that are freshly allocated objects
	Foreign []string // result names that are not objects allocated by the calling function (A-STORAGE)
	Inline  bool     // callers inline the body instead of using the contract
	Modular []string // callees (contract keys) that THIS function applies by contract although they are marked inline
	UsedModular bool // named in some "modular" directive: its frame is checked like that of a non-inline contract
	SplitReturns bool // inlined: every way of reaching a `return true` stays a group of its own in the caller (one per failing step)
	Props   []string
	File    string
	Line    int
	Assume  string // name of the assumption family (A-XML ...) for lib contracts
	Pure    bool
	WritesFresh bool
	WritesProps []string
}

type PureDef struct {
	Name   string
	Params []string
	Body   *SExpr
}
type AbsDef struct {
	Name string
	Args []*Sort
	Ret  *Sort
}
type GhostDef struct {
	Name string
	S    *Sort
	Init *SExpr
}

type Specs struct {
	Pure      map[string]*PureDef
	Abstract  map[string]*AbsDef
	Ghost     map[string]*GhostDef
	GhostList []string
	Contracts map[string]*Contract
	Files     []string
	OnAlloc   map[string][]*SExpr // type key -> facts about a freshly allocated object "it"
}

func sortByName(n string) *Sort {
	switch n {
	case "Int", "int":
		return SInt
	case "Bool", "bool":
		return SBool
	case "Str", "string":
		return SStr
	case "Ref":
		return SRef
	case "RefStrArr":
		return SArray(SRef, SStr)
	case "RefIntArr":
		return SArray(SRef, SInt)
	case "RefRefArr":
		return SArray(SRef, SRef)
	case "RefBoolArr":
		return SArray(SRef, SBool)
	case "IntArr":
		return SArray(SInt, SInt)
	case "StrArr":
		return SArray(SInt, SStr)
	case "RefArr":
		return SArray(SInt, SRef)
	}
	panic("unknown sort " + n)
}

var labelRe = regexp.MustCompile(`^([A-Za-z0-9_,.\-/]+):\s+(.*)$`)
var propRe = regexp.MustCompile(`^(C[0-9]{2}(?:,C[0-9]{2})*)\.`)

func loadSpecs(repoDir, libDir string) (*Specs, error) {
	sp := &Specs{Pure: map[string]*PureDef{}, Abstract: map[string]*AbsDef{}, Ghost: map[string]*GhostDef{}, Contracts: map[string]*Contract{}, OnAlloc: map[string][]*SExpr{}}
	var files []string
	filepath.Walk(filepath.Join(repoDir, "pkg"), func(p string, info os.FileInfo, err error) error {
		if err == nil && !info.IsDir() && filepath.Base(p) == "contracts_verif.go" {
			files = append(files, p)
		}
		return nil
	})
	libs, _ := filepath.Glob(filepath.Join(libDir, "*.spec"))
	sort.Strings(libs)
	sort.Strings(files)
	for _, f := range append(libs, files...) {
		if err := sp.parseFile(f, strings.HasSuffix(f, ".go")); err != nil {
			return nil, err
		}
		sp.Files = append(sp.Files, f)
	}
	for _, c := range sp.Contracts {
		for _, m := range c.Modular {
			if callee, ok := sp.Contracts[m]; ok {
				callee.UsedModular = true
			} else {
				return nil, fmt.Errorf("%s: modular %s: no such contract", c.Key, m)
			}
		}
	}
	return sp, nil
}

func (sp *Specs) parseFile(path string, goFile bool) error {
	data, err := os.ReadFile(path)
	if err != nil {
		return err
	}
	type line struct {
		n int
		s string
	}
	var lines []line
	for i, l := range strings.Split(string(data), "\n") {
		if goFile {
			t := strings.TrimSpace(l)
			if !strings.HasPrefix(t, "//@") {
				continue
			}
			l = strings.TrimPrefix(t, "//@")
		}
		if i := strings.Index(l, " ## "); i >= 0 {
			l = l[:i]
		}
		if strings.HasPrefix(strings.TrimSpace(l), "##") {
			continue
		}
		if strings.TrimSpace(l) == "" {
			continue
		}
		lines = append(lines, line{i + 1, l})
	}
	// join continuation lines: a line whose first word is not a keyword continues the previous one
	keywords := map[string]bool{"onalloc": true, "func": true, "lib": true, "pure": true, "abstract": true, "ghost": true, "requires": true, "ensures": true,
		"loop": true, "assigns": true, "fresh": true, "foreign": true, "names": true, "inline": true, "modular": true, "splitreturns": true, "property": true, "assume": true, "canary": true, "cover": true, "effectfree": true, "enter": true, "leave": true, "writes": true}
	var joined []line
	for _, l := range lines {
		w := strings.Fields(l.s)[0]
		if !keywords[w] && len(joined) > 0 {
			joined[len(joined)-1].s += " " + strings.TrimSpace(l.s)
			continue
		}
		joined = append(joined, line{l.n, strings.TrimSpace(l.s)})
	}
	var cur *Contract
	for _, l := range joined {
		where := fmt.Sprintf("%s:%d", path, l.n)
		f := strings.Fields(l.s)
		rest := strings.TrimSpace(strings.TrimPrefix(l.s, f[0]))
		fail := func(err error) error { return fmt.Errorf("%s: %v", where, err) }
		switch f[0] {
		case "pure":
			// pure name(a, b) = expr
			i := strings.Index(rest, "(")
			j := strings.Index(rest, ")")
			k := strings.Index(rest, "=")
			if i < 0 || j < i || k < j {
				return fail(fmt.Errorf("bad pure definition"))
			}
			name := strings.TrimSpace(rest[:i])
			var params []string
			for _, p := range strings.Split(rest[i+1:j], ",") {
				if p = strings.TrimSpace(p); p != "" {
					params = append(params, p)
				}
			}
			body, err := parseSpecExpr(rest[k+1:])
			if err != nil {
				return fail(err)
			}
			sp.Pure[name] = &PureDef{name, params, body}
		case "abstract":
			// abstract name(Sort, Sort) Sort
			i := strings.Index(rest, "(")
			j := strings.Index(rest, ")")
			name := strings.TrimSpace(rest[:i])
			ad := &AbsDef{Name: name}
			for _, p := range strings.Split(rest[i+1:j], ",") {
				if p = strings.TrimSpace(p); p != "" {
					ad.Args = append(ad.Args, sortByName(p))
				}
			}
			ad.Ret = sortByName(strings.TrimSpace(rest[j+1:]))
			sp.Abstract[name] = ad
		case "onalloc":
			// onalloc <type key> <expr over it>
			e, err := parseSpecExpr(strings.TrimSpace(strings.TrimPrefix(rest, f[1])))
			if err != nil {
				return fail(err)
			}
			sp.OnAlloc[f[1]] = append(sp.OnAlloc[f[1]], e)
		case "ghost":
			// ghost name Sort [= init]
			gd := &GhostDef{Name: f[1], S: sortByName(f[2])}
			if k := strings.Index(rest, "="); k >= 0 {
				e, err := parseSpecExpr(rest[k+1:])
				if err != nil {
					return fail(err)
				}
				gd.Init = e
			}
			if _, dup := sp.Ghost[gd.Name]; !dup {
				sp.GhostList = append(sp.GhostList, gd.Name)
			}
			sp.Ghost[gd.Name] = gd
		case "func", "lib":
			cur = &Contract{Lib: f[0] == "lib", File: path, Line: l.n}
			key := rest
			// optional "(params) (results)" after the key, separated by a space before "("
			if i := strings.Index(rest, " ("); i >= 0 {
				key = strings.TrimSpace(rest[:i])
				sig := rest[i+1:]
				j := strings.Index(sig, ")")
				for _, p := range strings.Split(sig[1:j], ",") {
					if p = strings.TrimSpace(p); p != "" {
						cur.Params = append(cur.Params, p)
					}
				}
				sig = strings.TrimSpace(sig[j+1:])
				if strings.HasPrefix(sig, "(") {
					for _, p := range strings.Split(strings.Trim(sig, "()"), ",") {
						if p = strings.TrimSpace(p); p != "" {
							cur.Results = append(cur.Results, p)
						}
					}
				}
			}
			cur.Key = key
			if _, dup := sp.Contracts[key]; dup {
				return fail(fmt.Errorf("duplicate contract for %s", key))
			}
			sp.Contracts[key] = cur
		default:
			if cur == nil {
				return fail(fmt.Errorf("clause outside a contract: %s", l.s))
			}
			switch f[0] {
			case "names":
				cur.Results = nil
				for _, p := range strings.Split(rest, ",") {
					cur.Results = append(cur.Results, strings.TrimSpace(p))
				}
			case "fresh":
				for _, p := range strings.Split(rest, ",") {
					cur.Fresh = append(cur.Fresh, strings.TrimSpace(p))
				}
			case "foreign":
				for _, p := range strings.Split(rest, ",") {
					cur.Foreign = append(cur.Foreign, strings.TrimSpace(p))
				}
			case "writes":
				// "writes fresh [C15]": every store performed while this function runs (callees included) targets an object
				// allocated during the call; optional property label for the obligations
				cur.WritesFresh = true
				for _, w := range f[1:] {
					if propRe.MatchString(w + ".") {
						cur.WritesProps = strings.Split(w, ",")
					}
				}
			case "inline":
				cur.Inline = true
			case "modular":
				cur.Modular = append(cur.Modular, strings.TrimSpace(rest))
			case "splitreturns":
				cur.SplitReturns = true
			case "effectfree":
				cur.Pure = true
			case "assume":
				cur.Assume = rest
			case "property":
				cur.Props = strings.Fields(strings.ReplaceAll(rest, ",", " "))
			case "assigns":
				if rest == "nothing" {
					cur.Assigns = []string{}
				} else {
					for _, p := range strings.Split(rest, ",") {
						cur.Assigns = append(cur.Assigns, strings.TrimSpace(p))
					}
				}
			case "enter", "leave":
				// ghost code attached to the function: "enter g = expr" runs on entry (over the parameters),
				// "leave g = expr" on return (over parameters and results)
				k := strings.Index(rest, "=")
				if k < 0 {
					return fail(fmt.Errorf("expected: %s <ghost> = <expr>", f[0]))
				}
				e, err := parseSpecExpr(rest[k+1:])
				if err != nil {
					return fail(err)
				}
				cur.Clauses = append(cur.Clauses, &Clause{Kind: f[0], Label: strings.TrimSpace(rest[:k]), Expr: e, Src: rest, Where: where})
			case "requires", "ensures", "canary", "cover", "loop":
				cl := &Clause{Kind: f[0], Where: where}
				if f[0] == "loop" && len(f) >= 4 && f[2] == "assigns" && f[3] == "fresh" {
					// loop frame: the loop writes only to objects allocated during this execution of the function
					n, err := strconv.Atoi(f[1])
					if err != nil {
						return fail(fmt.Errorf("expected: loop <n> assigns fresh"))
					}
					cur.Clauses = append(cur.Clauses, &Clause{Kind: "loopframe", Loop: n, Where: where})
					continue
				}
				if f[0] == "loop" {
					n, err := strconv.Atoi(f[1])
					if err != nil || len(f) < 3 || f[2] != "invariant" {
						return fail(fmt.Errorf("expected: loop <n> invariant <expr>"))
					}
					cl.Kind = "invariant"
					cl.Loop = n
					rest = strings.TrimSpace(strings.TrimPrefix(strings.TrimSpace(strings.TrimPrefix(rest, f[1])), "invariant"))
				}
				if m := labelRe.FindStringSubmatch(rest); m != nil {
					cl.Label = m[1]
					rest = m[2]
				}
				if m := propRe.FindStringSubmatch(cl.Label); m != nil {
					cl.Props = strings.Split(m[1], ",")
					cl.Label = strings.TrimPrefix(cl.Label, m[0])
				}
				e, err := parseSpecExpr(rest)
				if err != nil {
					return fail(err)
				}
				cl.Expr = e
				cl.Src = rest
				cur.Clauses = append(cur.Clauses, cl)
			default:
				return fail(fmt.Errorf("unknown clause %q", f[0]))
			}
		}
	}
	return nil
}

func (c *Contract) clauseProps(cl *Clause) []string {
	if len(cl.Props) > 0 {
		return cl.Props
	}
	return c.Props
}

func (c *Contract) allProps() []string {
	m := map[string]bool{}
	for _, p := range c.Props {
		m[p] = true
	}
	for _, cl := range c.Clauses {
		for _, p := range cl.Props {
			m[p] = true
		}
	}
	var out []string
	for p := range m {
		out = append(out, p)
	}
	sort.Strings(out)
	return out
}

func (c *Contract) isForeign(n string) bool {
	for _, x := range c.Foreign {
		if x == n {
			return true
		}
	}
	return false
}

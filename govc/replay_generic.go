package main

// Table-driven replay drivers for functions whose inputs are strings, lists of strings and small records of strings.
// The inputs are named by spec expressions over the parameters (evaluated on the entry state of a refutation-mode run);
// the model's abstract string values are concretised to distinct texts (literals keep theirs) and a generated in-package
// test runs the real function on them and evaluates an oracle written from the property statement.

import (
	"fmt"
	"sort"
	"strings"
)

type genInput struct {
	name string // name in the generated test
	expr string // spec expression; "%d" is replaced by the element index for list inputs
	list string // for list inputs: spec expression of the list length
}

type genDriver struct {
	fn       string
	maxN     int
	inputs   []genInput
	literals []string                                         // string literals whose text must be kept
	test     func(vals map[string][]string) (pkgDir, testName, src string) // builds the test from concretised inputs
	how      string
}

func (g *genDriver) run(p *Program, prop string, o *Obligation, dir string) map[string]interface{} {
	f := p.byName[g.fn]
	ct := p.contractFor(f)
	vc, err := p.verifyFunctionOpt(f, ct, false, true, g.maxN)
	if err != nil {
		return map[string]interface{}{"attempted": true, "reproduced": false, "reason": "refutation-mode execution failed: " + firstLines(err.Error(), 2)}
	}
	env := map[string]SVal{}
	for i, prm := range f.Params {
		env[prm.Name()] = SVal{V: vc.paramVals[i], T: prm.Type()}
	}
	fr := vc.topFrame
	evalTerm := func(src string) *Term {
		e, err := parseSpecExpr(src)
		if err != nil {
			panic(err)
		}
		ev := &SpecEval{vc: vc, fr: fr, names: env, cur: vc.preState, old: vc.preState}
		return ev.term(e)
	}
	terms := map[string]*Term{}
	var lenTerms []*Term
	termMu.Lock()
	for i, l := range g.literals {
		terms[fmt.Sprintf("lit_%d", i)] = StrLit(l)
	}
	for _, in := range g.inputs {
		if in.list == "" {
			terms[in.name] = evalTerm(in.expr)
			continue
		}
		lt := evalTerm(in.list)
		terms[in.name+"_n"] = lt
		lenTerms = append(lenTerms, lt)
		for i := 0; i < g.maxN; i++ {
			terms[fmt.Sprintf("%s_%d", in.name, i)] = evalTerm(strings.ReplaceAll(in.expr, "%d", fmt.Sprint(i)))
		}
	}
	termMu.Unlock()
	tried := 0
	var last map[string]interface{}
	for _, ro := range vc.obls {
		if ro.Kind != "post" || ro.Aux {
			continue
		}
		tried++
		termMu.Lock()
		as := append([]*Term{}, vc.facts[:ro.NFacts]...)
		as = append(as, ro.Reach)
		for _, lt := range lenTerms {
			as = append(as, Le(lt, IntLit(int64(g.maxN))))
		}
		termMu.Unlock()
		vals, verdict := modelValues(as, ro.Goal, terms, dir, fmt.Sprintf("replay_%d", tried))
		if vals == nil {
			continue
		}
		text := map[string]string{}
		for i, l := range g.literals {
			text[vals[fmt.Sprintf("lit_%d", i)]] = l
		}
		fresh := 0
		str := func(abs string) string {
			if s, ok := text[abs]; ok {
				return s
			}
			fresh++
			s := fmt.Sprintf("urn:x:s%d", fresh)
			text[abs] = s
			return s
		}
		conc := map[string][]string{}
		ok := true
		for _, in := range g.inputs {
			if in.list == "" {
				conc[in.name] = []string{str(vals[in.name])}
				continue
			}
			n, good := smtInt(vals[in.name+"_n"])
			if !good || n < 0 || n > int64(g.maxN) {
				ok = false
				break
			}
			conc[in.name] = []string{}
			for i := 0; i < int(n); i++ {
				conc[in.name] = append(conc[in.name], str(vals[fmt.Sprintf("%s_%d", in.name, i)]))
			}
		}
		if !ok {
			continue
		}
		pkgDir, testName, src := g.test(conc)
		out, reproduced := runOverlayTest(p.repo, pkgDir, "zz_govc_replay_test.go", src, testName, dir)
		res := map[string]interface{}{"attempted": true, "solver_verdict": verdict, "refutation_obligation": ro.Name, "input": conc,
			"go_test_output": trunc(out, 1500), "reproduced": reproduced}
		if reproduced {
			res["how"] = g.how
			return res
		}
		last = res
		if tried >= 12 {
			break
		}
	}
	out := map[string]interface{}{"attempted": true, "reproduced": false, "reason": fmt.Sprintf("no model reproduced on the real code (%d refutation queries, lists of up to %d entries)", tried, g.maxN)}
	if last != nil {
		out["last_attempt"] = last
	}
	return out
}

func goStrings(xs []string) string {
	var q []string
	for _, x := range xs {
		q = append(q, fmt.Sprintf("%q", x))
	}
	return "[]string{" + strings.Join(q, ", ") + "}"
}

const destTestTmpl = `package provider

import (
	"testing"

	"github.com/zitadel/saml/pkg/provider/xml/md"
	"github.com/zitadel/saml/pkg/provider/xml/samlp"
)

func %s(t *testing.T) {
	locs := %s
	dest := %q
	%s
	advertised := false
	for _, l := range locs {
		if l == dest {
			advertised = true
		}
	}
	want := dest == "" || advertised
	if (err == nil) != want {
		t.Fatalf("GOVC-REPRODUCED: destination %%q against advertised locations %%q: accepted=%%v, the property demands accepted=%%v", dest, locs, err == nil, want)
	}
	t.Logf("GOVC-NOT-REPRODUCED: accepted=%%v", err == nil)
	_, _ = md.EndpointType{}, samlp.AuthnRequestType{}
}
`

func init() {
	mkDest := func(fn, listField, call, testName string) *genDriver {
		return &genDriver{fn: fn, maxN: 4,
			inputs: []genInput{{name: "locs", expr: "metadata." + listField + "[%d].Location", list: "len(metadata." + listField + ")"}, {name: "dest", expr: "request.Destination"}},
			literals: []string{""},
			test: func(v map[string][]string) (string, string, string) {
				return "pkg/provider", testName, fmt.Sprintf(destTestTmpl, testName, goStrings(v["locs"]), v["dest"][0], call)
			},
			how: "go test -overlay (in-package test calling the real " + fn + "; oracle: accepted iff the Destination is empty or equals one of the advertised locations)"}
	}
	d1 := mkDest("provider.verifyRequestDestinationOfAuthRequest", "SingleSignOnService",
		"mdv := &md.IDPSSODescriptorType{}\n\tfor _, l := range locs {\n\t\tmdv.SingleSignOnService = append(mdv.SingleSignOnService, md.EndpointType{Location: l})\n\t}\n\terr := verifyRequestDestinationOfAuthRequest(mdv, &samlp.AuthnRequestType{Destination: dest})", "TestGovcReplayDestAuthn")
	d2 := mkDest("provider.verifyRequestDestinationOfAttrQuery", "AttributeService",
		"mdv := &md.AttributeAuthorityDescriptorType{}\n\tfor _, l := range locs {\n\t\tmdv.AttributeService = append(mdv.AttributeService, md.EndpointType{Location: l})\n\t}\n\terr := verifyRequestDestinationOfAttrQuery(mdv, &samlp.AttributeQueryType{Destination: dest})", "TestGovcReplayDestAttr")
	replayDrivers[d1.fn] = d1.run
	replayDrivers[d2.fn] = d2.run
	_ = sort.Strings
}

package main

import (
	"encoding/json"
	"fmt"
	"os"
	"path/filepath"
	"runtime/pprof"
	"sort"
	"strconv"
	"strings"
	"sync"
	"time"

	"golang.org/x/tools/go/ssa"
)

var verifDir = "/verif"

func main() {
	if len(os.Args) < 2 {
		fmt.Fprintln(os.Stderr, "usage: govc check <property> <quick|thorough> | govc fn <function> | govc list")
		os.Exit(2)
	}
	if pf := os.Getenv("GOVC_PROF"); pf != "" {
		f, _ := os.Create(pf)
		pprof.StartCPUProfile(f)
		go func() {
			time.Sleep(60 * time.Second)
			pprof.StopCPUProfile()
			f.Close()
			os.Exit(3)
		}()
	}
	if d := os.Getenv("VERIF_DIR"); d != "" {
		verifDir = d
	}
	repo := os.Getenv("VERIF_REPO")
	if repo == "" {
		repo = "/repo"
	}
	switch os.Args[1] {
	case "check":
		tier := "quick"
		if len(os.Args) > 3 {
			tier = os.Args[3]
		}
		os.Exit(cmdCheck(repo, os.Args[2], tier))
	case "fn":
		os.Exit(cmdFn(repo, os.Args[2:]))
	case "list":
		p, err := loadProgram(repo, filepath.Join(verifDir, "contracts", "lib"))
		if err != nil {
			fmt.Fprintln(os.Stderr, err)
			os.Exit(2)
		}
		var ns []string
		for n := range p.byName {
			ns = append(ns, n)
		}
		sort.Strings(ns)
		for _, n := range ns {
			fmt.Println(n)
		}
	case "callees":
		os.Exit(cmdCallees(repo, os.Args[2:]))
	case "replay":
		os.Exit(cmdReplay(os.Args[2]))
	}
}

func cmdFn(repo string, args []string) int {
	p, err := loadProgram(repo, filepath.Join(verifDir, "contracts", "lib"))
	if err != nil {
		fmt.Fprintln(os.Stderr, err)
		return 2
	}
	f := p.byName[args[0]]
	if f == nil {
		fmt.Fprintln(os.Stderr, "no such function", args[0])
		return 2
	}
	sweep := len(args) > 1 && args[1] == "sweep"
	t0 := time.Now()
	vc, err := p.verifyFunction(f, p.contractFor(f), sweep, false)
	if err != nil {
		fmt.Fprintln(os.Stderr, err)
		return 2
	}
	fmt.Printf("generated %d obligations, %d facts, %d terms in %.1fs\n", len(vc.obls), len(vc.facts), termCount, time.Since(t0).Seconds())
	if os.Getenv("GOVC_GENONLY") != "" {
		return 0
	}
	dir, _ := os.MkdirTemp("", "govc")
	defer os.RemoveAll(dir)
	if os.Getenv("GOVC_KEEP") != "" {
		dir = os.Getenv("GOVC_KEEP")
		os.MkdirAll(dir, 0o755)
	}
	vc.discharge(dir, 20, false)
	bad := 0
	for _, o := range vc.obls {
		if o.Aux {
			continue
		}
		fmt.Printf("%-11s %-8s %6.2fs %s  [%s]\n", o.Status, o.Solver, o.Time, o.Name, o.Pos)
		if os.Getenv("GOVC_LOG") != "" && o.Solver != "simplifier" {
			fmt.Println("   ", strings.ReplaceAll(o.Output, "\n", "\n    "))
		}
		if d := os.Getenv("GOVC_DUMP"); d != "" && strings.HasSuffix(o.Name, d) {
			fmt.Println("GOAL:", termPreview(o.Goal, 30000))
			// the distinct string equalities inside the goal, each printed on its own
			seen := map[int]bool{}
			var walk func(t *Term)
			walk = func(t *Term) {
				if seen[t.id] {
					return
				}
				seen[t.id] = true
				if t.Op == "=" && len(t.Args) == 2 && (t.Args[0].S == SStr || t.Args[0].S == SRef) && (t.Args[0].Op == "select" || t.Args[1].Op == "select") {
					fmt.Println("EQ:", termPreview(t, 3000))
				}
				for _, a := range t.Args {
					walk(a)
				}
			}
			walk(o.Goal)
		}
		if o.Status != "discharged" && !o.Aux {
			bad++
			fmt.Println("   ", strings.ReplaceAll(o.Output, "\n", "\n    "))
		}
	}
	for w := range vc.warnings {
		fmt.Println("warning:", w)
	}
	for a := range vc.assumed {
		fmt.Println("assumes:", a)
	}
	fmt.Printf("%d obligations, %d not discharged, %d facts\n", len(vc.obls), bad, len(vc.facts))
	if bad > 0 {
		return 1
	}
	return 0
}

// ---- property checks ----

type Finding struct {
	Kind       string `json:"kind"`
	Property   string `json:"property"`
	Obligation string `json:"obligation"`
	What       string `json:"what"`
	Commit     string `json:"commit"`
}

func loadFindings() []Finding {
	var out []Finding
	data, err := os.ReadFile(filepath.Join(verifDir, "known_findings.jsonl"))
	if err != nil {
		return nil
	}
	for _, l := range strings.Split(string(data), "\n") {
		if strings.TrimSpace(l) == "" {
			continue
		}
		var f Finding
		if json.Unmarshal([]byte(l), &f) == nil {
			out = append(out, f)
		}
	}
	return out
}

type fnResult struct {
	name string
	vc   *VC
	err  error
}

func cmdCheck(repo, prop, tier string) int {
	t0 := time.Now()
	seed, _ := strconv.Atoi(os.Getenv("VERIF_SEED"))
	p, err := loadProgram(repo, filepath.Join(verifDir, "contracts", "lib"))
	if err != nil {
		fmt.Fprintln(os.Stderr, "load failed:", err)
		// a tree that does not build cannot be checked; report as engine error (exit 2), not as violation
		return 2
	}
	thorough := tier == "thorough"
	timeout := 20
	if thorough {
		timeout = 60
	}
	dir, _ := os.MkdirTemp("", "govc-"+prop)
	defer os.RemoveAll(dir)
	// watchdog: a check always ends. Obligation generation has its own budget and every solver a CPU limit; if the whole
	// check nevertheless does not finish (on the unchanged tree it takes well under a minute) the code is outside what the
	// engine can decide, which is reported as a violation without a failing input, never as a pass.
	limit := 15 * time.Minute
	if thorough {
		limit = 60 * time.Minute
	}
	go func() {
		time.Sleep(limit)
		rp := filepath.Join(verifDir, "replays", prop)
		os.MkdirAll(rp, 0o755)
		rf := filepath.Join(rp, "engine-watchdog.json")
		doc := map[string]interface{}{"property": prop, "obligation": "engine/watchdog", "status": "unknown",
			"solver_output": fmt.Sprintf("the check did not finish within %v (obligation generation, query rendering or solving did not terminate); no verdict on any obligation is reported", limit),
			"replay": "no-failing-input-found"}
		b, _ := json.MarshalIndent(doc, "", " ")
		os.WriteFile(rf, b, 0o644)
		level := "proof"
		if prop == "C17" {
			level = "other"
		}
		ev := map[string]interface{}{"property_id": prop, "tier": tier, "seed": seed, "level": level, "wall_s": time.Since(t0).Seconds(), "violations": 1,
			"coverage": map[string]interface{}{"note": "watchdog fired: nothing was decided in this run"}, "assumptions": []string{}}
		eb, _ := json.MarshalIndent(ev, "", " ")
		os.WriteFile(filepath.Join(verifDir, "evidence", prop+".json"), eb, 0o644)
		fmt.Printf("VIOLATION property=%s replay=%s obligation=engine/watchdog status=unknown the check did not finish within %v no-failing-input-found\n", prop, rf, limit)
		os.RemoveAll(dir)
		os.Exit(1)
	}()

	var results []*fnResult
	var missing []string
	// functions under contract for this property
	var keys []string
	for k, ct := range p.specs.Contracts {
		if ct.Lib {
			continue
		}
		// a function is proved on its own for this property when one of its postconditions belongs to it
		picked := false
		for _, cl := range ct.Clauses {
			if (cl.Kind == "ensures" || cl.Kind == "canary") && inProps(ct.clauseProps(cl), prop) {
				keys = append(keys, k)
				picked = true
				break
			}
		}
		if !picked && ct.WritesFresh && inProps(ct.WritesProps, prop) {
			keys = append(keys, k)
		}
	}
	sort.Strings(keys)
	for _, k := range keys {
		f := p.byName[k]
		if f == nil {
			missing = append(missing, k)
			continue
		}
		vc, err := p.verifyFunction(f, p.specs.Contracts[k], false, false)
		results = append(results, &fnResult{k, vc, err})
	}
	if sw := sweepTargets(p, prop); len(sw) > 0 {
		for _, f := range sw {
			vc, err := p.verifyFunction(f, p.contractFor(f), true, false)
			results = append(results, &fnResult{p.shortName(f) + " [sweep]", vc, err})
		}
	}
	// discharge
	var wg sync.WaitGroup
	for _, r := range results {
		if r.err == nil {
			wg.Add(1)
			go func(r *fnResult) {
				defer wg.Done()
				r.vc.discharge(dir, timeout, thorough)
			}(r)
		}
	}
	wg.Wait()
	return report(p, prop, tier, seed, results, missing, t0, dir)
}

func inProps(ps []string, p string) bool {
	for _, x := range ps {
		if x == p {
			return true
		}
	}
	return false
}

func report(p *Program, prop, tier string, seed int, results []*fnResult, missing []string, t0 time.Time, dir string) int {
	findings := loadFindings()
	total, discharged := 0, 0
	byKind := map[string]int{}
	bySolver := map[string]int{}
	solverTime := 0.0
	var samples []map[string]interface{}
	var violations []*Obligation
	var violVC = map[*Obligation]*VC{}
	var known []string
	assumed := map[string]bool{}
	inlined := map[string]bool{}
	warnings := map[string]bool{}
	var fns []string
	engineErrors := []string{}
	canaries, covers := 0, 0
	for _, r := range results {
		fns = append(fns, r.name)
		if r.err != nil {
			engineErrors = append(engineErrors, r.err.Error())
			continue
		}
		for a := range r.vc.assumed {
			assumed[a] = true
		}
		for a := range r.vc.inlined {
			inlined[a] = true
		}
		for a := range r.vc.warnings {
			warnings[a] = true
		}
		for _, o := range r.vc.obls {
			if o.Aux {
				continue
			}
			// posts labelled for other properties only are not this property's obligations
			if o.Kind == "post" && len(o.Props) > 0 && !inProps(o.Props, prop) && !strings.Contains(r.name, "[sweep]") {
				continue
			}
			isKnown := false
			if o.Status != "discharged" {
				for _, f := range findings {
					if f.Kind == "finding" && f.Property == prop && f.Obligation == o.Name {
						known = append(known, fmt.Sprintf("KNOWN-FINDING: property=%s %s: %s", prop, o.Name, f.What))
						isKnown = true
					}
				}
			}
			if isKnown {
				continue
			}
			total++
			byKind[o.Kind]++
			solverTime += o.Time
			if o.Kind == "canary" {
				canaries++
			}
			if o.Kind == "cover" {
				covers++
			}
			if o.Status == "discharged" {
				discharged++
				bySolver[o.Solver]++
				if len(samples) < 6 && o.Solver != "simplifier" && o.Kind != "cover" {
					g := o.Goal.String()
					if len(g) > 600 {
						g = g[:600] + " ..."
					}
					samples = append(samples, map[string]interface{}{"obligation": o.Name, "kind": o.Kind, "goal": g, "solver": o.Solver, "seconds": o.Time, "at": o.Pos})
				}
			} else {
				violations = append(violations, o)
				violVC[o] = r.vc
			}
		}
	}
	for _, m := range missing {
		total++
		violations = append(violations, &Obligation{Name: m + "/subset/function-under-contract-missing", Kind: "subset", Status: "failed", Output: "the contract file names a function that no longer exists"})
	}
	sort.Strings(known)
	for _, k := range known {
		fmt.Println(k)
	}
	exit := 0
	os.MkdirAll(filepath.Join(verifDir, "replays", prop), 0o755)
	for _, o := range violations {
		rp := filepath.Join(verifDir, "replays", prop, sanitize(o.Name)+".json")
		suffix := writeReplay(p, prop, o, violVC[o], rp, dir)
		fmt.Printf("VIOLATION property=%s replay=%s obligation=%s status=%s%s\n", prop, rp, o.Name, o.Status, suffix)
		exit = 1
	}
	for _, e := range engineErrors {
		fmt.Println("ENGINE-ERROR:", firstLines(e, 3))
		fmt.Printf("VIOLATION property=%s replay=%s engine failure, see output no-failing-input-found\n", prop, filepath.Join(verifDir, "replays", prop, "engine.json"))
		os.WriteFile(filepath.Join(verifDir, "replays", prop, "engine.json"), []byte(fmt.Sprintf("{\"obligation\":\"engine\",\"output\":%q}", e)), 0o644)
		exit = 1
	}
	if total == 0 && exit == 0 {
		fmt.Printf("VIOLATION property=%s replay=none zero obligations generated (vacuous) no-failing-input-found\n", prop)
		exit = 1
	}
	ev := map[string]interface{}{
		"property_id": prop, "tier": tier, "seed": seed, "level": levelOf(prop),
		"wall_s":     time.Since(t0).Seconds(),
		"violations": len(violations),
		"coverage": map[string]interface{}{
			"obligations": total, "discharged": discharged,
			"checker_cmd":  fmt.Sprintf("bin/govc check %s %s  (queries: z3-new 5.1.0 / z3 4.8.12 / cvc5 1.0.3 portfolio, CPU-time limit per query and solver %s)", prop, tier, map[bool]string{true: "60 s", false: "20 s"}[tier == "thorough"]),
			"trusted_base": keysOf(assumed),
			"functions_under_contract": fns,
			"obligations_by_kind":      byKind,
			"discharged_by_backend":    bySolver,
			"solver_seconds":           solverTime,
			"canaries_refuted":         canaries,
			"covers_reached":           covers,
			"inlined_uncontracted_callees": keysOf(inlined),
			"engine_notes":             keysOf(warnings),
			"known_findings":           known,
			"samples":                  samples,
			"explanation":              "Obligations are weakest-precondition style verification conditions generated by symbolic execution of the go/ssa form of the functions listed, against //@ contracts in /repo's guarded contracts_verif.go files; each is an SMT query (negated goal under path condition and assumed contracts) that must be unsat; canaries and covers must be sat.",
		},
		"assumptions": keysOf(assumed),
	}
	os.MkdirAll(filepath.Join(verifDir, "evidence"), 0o755)
	data, _ := json.MarshalIndent(ev, "", " ")
	os.WriteFile(filepath.Join(verifDir, "evidence", prop+".json"), data, 0o644)
	fmt.Printf("%s %s: %d obligations, %d discharged, %d violations, %d known findings, %.1fs\n", prop, tier, total, discharged, len(violations), len(known), time.Since(t0).Seconds())
	return exit
}

func levelOf(prop string) string {
	if prop == "C17" {
		return "other"
	}
	return "proof"
}

func keysOf(m map[string]bool) []string {
	out := []string{}
	for k := range m {
		out = append(out, k)
	}
	sort.Strings(out)
	return out
}

func writeReplay(p *Program, prop string, o *Obligation, vc *VC, path, dir string) string {
	rec := map[string]interface{}{"property": prop, "obligation": o.Name, "kind": o.Kind, "status": o.Status, "position": o.Pos, "function": o.Fn, "solver_output": o.Output}
	suffix := " no-failing-input-found"
	if vc != nil && o.Goal != nil {
		rec["goal"] = trunc(o.Goal.String(), 4000)
		rec["path_condition"] = trunc(o.Reach.String(), 4000)
		q := o.query(vc, nil)
		rec["smt_query_bytes"] = len(q)
		os.WriteFile(strings.TrimSuffix(path, ".json")+".smt2", []byte(q), 0o644)
		if res := tryReplay(p, prop, o, vc, dir); res != nil {
			rec["replay"] = res
			if res["reproduced"] == true {
				suffix = ""
			}
		}
	}
	data, _ := json.MarshalIndent(rec, "", " ")
	os.WriteFile(path, data, 0o644)
	return suffix
}

func trunc(s string, n int) string {
	if len(s) > n {
		return s[:n] + " ..."
	}
	return s
}

func cmdReplay(path string) int {
	data, err := os.ReadFile(path)
	if err != nil {
		fmt.Fprintln(os.Stderr, err)
		return 2
	}
	fmt.Println(string(data))
	return 0
}

// sweepTargets: functions checked for panic freedom without annotations (C09)
func sweepTargets(p *Program, prop string) []*ssa.Function {
	if prop != "C09" {
		return nil
	}
	var out []*ssa.Function
	data, err := os.ReadFile(filepath.Join(verifDir, "contracts", "sweep_C09.txt"))
	if err != nil {
		return nil
	}
	for _, l := range strings.Split(string(data), "\n") {
		l = strings.TrimSpace(l)
		if l == "" || strings.HasPrefix(l, "#") {
			continue
		}
		if f := p.byName[l]; f != nil {
			out = append(out, f)
		} else {
			fmt.Println("sweep target missing:", l)
		}
	}
	return out
}

// cmdCallees: library functions and interface methods called (transitively through module code) from fn
func cmdCallees(repo string, names []string) int {
	p, err := loadProgram(repo, filepath.Join(verifDir, "contracts", "lib"))
	if err != nil {
		fmt.Fprintln(os.Stderr, err)
		return 2
	}
	seen := map[*ssa.Function]bool{}
	libs := map[string]int{}
	var walk func(f *ssa.Function)
	walk = func(f *ssa.Function) {
		if seen[f] {
			return
		}
		seen[f] = true
		for _, a := range f.AnonFuncs {
			walk(a)
		}
		for _, b := range f.Blocks {
			for _, ins := range b.Instrs {
				c, ok := ins.(ssa.CallInstruction)
				if !ok {
					continue
				}
				com := c.Common()
				if com.IsInvoke() {
					k := "invoke " + typeKey(com.Value.Type()) + "." + com.Method.Name()
					if p.specs.Contracts[k] != nil || p.specs.Contracts["invoke "+com.Method.Name()] != nil {
						k += "   [catalogued]"
					}
					libs[k]++
					continue
				}
				if g := com.StaticCallee(); g != nil {
					if inModule(g) && len(g.Blocks) > 0 {
						walk(g)
					} else {
						k := p.shortName(g)
						if p.specs.Contracts[k] != nil {
							k += "   [catalogued]"
						}
						libs[k]++
					}
				}
			}
		}
	}
	for _, n := range names {
		if f := p.byName[n]; f != nil {
			walk(f)
		} else {
			fmt.Println("missing", n)
		}
	}
	var ks []string
	for k := range libs {
		ks = append(ks, k)
	}
	sort.Strings(ks)
	for _, k := range ks {
		fmt.Printf("%3d %s\n", libs[k], k)
	}
	return 0
}

package main

// Term layer: hash-consed SMT terms with syntactic simplification (select/store over
// datatype references, literal folding) and a DAG printer producing SMT-LIB 2.

import (
	"fmt"
	"sort"
	"strconv"
	"strings"
)

type Sort struct {
	Name string // Int Bool Str Ref or Array
	Idx  *Sort
	Val  *Sort
}

var (
	SInt  = &Sort{Name: "Int"}
	SBool = &Sort{Name: "Bool"}
	SStr  = &Sort{Name: "Str"}
	SRef  = &Sort{Name: "Ref"}
)

var arraySorts = map[string]*Sort{}

func SArray(idx, val *Sort) *Sort {
	k := idx.String() + ">" + val.String()
	if s, ok := arraySorts[k]; ok {
		return s
	}
	s := &Sort{Name: "Array", Idx: idx, Val: val}
	arraySorts[k] = s
	return s
}

func (s *Sort) String() string {
	if s.Name == "Array" {
		return "(Array " + s.Idx.String() + " " + s.Val.String() + ")"
	}
	return s.Name
}

type Term struct {
	Op   string // var, int, bool, strlit, app, and, or, not, =>, ite, =, <, <=, +, -, *, select, store, forall, exists, bound, obj, sub, elem, nilref, havocabove
	Name string
	Int  int64
	Args []*Term
	S    *Sort
	id   int
	// for var of array sort / havocabove: every pointer stored inside has rootid < Bound (0 = unknown)
	Bound    int64
	GapLo, GapHi int64 // for a Ref var: rootid is known NOT to lie in [GapLo, GapHi] (0,0 = nothing known)
	HasBound bool // contains a bound (quantified) variable
	Bvars    []*Term
}

var termCount int

// termBudgetCheck is called every 65536 term constructions; it panics when the function under proof has used up its
// budget of terms or time (reported as an engine failure for that function, never as a pass)
var termBudgetCheck func()

type termKey struct {
	op, name string
	iv       int64
	s        *Sort
	n        int
	a0, a1, a2 int
	rest     string
}

var termTable2 = map[termKey]*Term{}

func mk(op, name string, iv int64, s *Sort, args ...*Term) *Term {
	k := termKey{op: op, name: name, iv: iv, s: s, n: len(args)}
	switch {
	case len(args) > 0:
		k.a0 = args[0].id
		fallthrough
	default:
	}
	if len(args) > 1 {
		k.a1 = args[1].id
	}
	if len(args) > 2 {
		k.a2 = args[2].id
	}
	if len(args) > 3 {
		var sb strings.Builder
		for _, a := range args[3:] {
			sb.WriteString(strconv.Itoa(a.id))
			sb.WriteByte(',')
		}
		k.rest = sb.String()
	}
	if t, ok := termTable2[k]; ok {
		return t
	}
	termCount++
	if termCount&0xffff == 0 && termBudgetCheck != nil {
		termBudgetCheck()
	}
	t := &Term{Op: op, Name: name, Int: iv, Args: args, S: s, id: termCount}
	for _, a := range args {
		if a.HasBound {
			t.HasBound = true
		}
	}
	if op == "bound" {
		t.HasBound = true
	}
	termTable2[k] = t
	return t
}

// ---- constructors ----

var (
	TTrue  = mk("bool", "", 1, SBool)
	TFalse = mk("bool", "", 0, SBool)
	TNil   = mk("nilref", "", 0, SRef)
)

func IntLit(i int64) *Term { return mk("int", "", i, SInt) }
func BoolLit(b bool) *Term {
	if b {
		return TTrue
	}
	return TFalse
}
func Var(name string, s *Sort) *Term { return mk("var", name, 0, s) }

// VarB: array variable whose pointer contents are older than bound
func VarB(name string, s *Sort, bound int64) *Term {
	t := mk("var", name, 0, s)
	if bound != 0 && (t.Bound == 0 || bound < t.Bound) {
		t.Bound = bound
	}
	return t
}
func BoundVar(name string, s *Sort) *Term { return mk("bound", name, 0, s) }

// VarForeign: a reference that is older than bound and is not one of the families gapLo..gapHi
func VarForeign(name string, bound, gapLo, gapHi int64) *Term {
	t := VarB(name, SRef, bound)
	if gapLo <= gapHi {
		t.GapLo, t.GapHi = gapLo, gapHi
	}
	return t
}

// VarBGap: array variable whose pointer contents are older than bound and never of a family in gapLo..gapHi
func VarBGap(name string, s *Sort, bound, gapLo, gapHi int64) *Term {
	t := VarB(name, s, bound)
	if gapLo <= gapHi && gapLo > 0 {
		t.GapLo, t.GapHi = gapLo, gapHi
	}
	return t
}

// contentExcludes: no pointer stored in array term a has family k (syntactic)
func contentExcludes(a *Term, k int64) bool {
	switch a.Op {
	case "var":
		if a.S.Name == "Array" && !(a.GapLo == 0 && a.GapHi == 0) && a.GapLo <= k && k <= a.GapHi {
			return true
		}
		return a.Bound != 0 && k >= a.Bound
	case "havocabove", "havocfam", "ite":
		return contentExcludes(a.Args[len(a.Args)-2], k) && contentExcludes(a.Args[len(a.Args)-1], k)
	case "store":
		if a.Args[2].S != SRef {
			return contentExcludes(a.Args[0], k)
		}
		return contentExcludes(a.Args[0], k) && excludesFamily(a.Args[2], k)
	}
	return false
}

// excludesFamily: rootid(t) is syntactically known to differ from k
func excludesFamily(t *Term, k int64) bool {
	switch t.Op {
	case "nilref":
		return k != 0
	case "sub", "elem", "mkey":
		return excludesFamily(t.Args[0], k)
	case "ite":
		return excludesFamily(t.Args[1], k) && excludesFamily(t.Args[2], k)
	case "var":
		if t.GapLo <= k && k <= t.GapHi && !(t.GapLo == 0 && t.GapHi == 0) {
			return true
		}
	case "select":
		if k != 0 && contentExcludes(t.Args[0], k) {
			return true
		}
	}
	lo, hi := rootRange(t)
	if hi != noBound && k > hi {
		return true
	}
	if lo != noBound && k < lo {
		return true
	}
	return false
}

// HavocFam(a, k, fresh): array equal to fresh on references of family k and to a elsewhere
func HavocFam(a *Term, k int64, fresh *Term) *Term {
	t := mk("havocfam", "", k, a.S, a, fresh)
	cb := contentBound(a)
	fb := contentBound(fresh)
	if cb != 0 && fb != 0 {
		t.Bound = max64(cb, fb)
	}
	return t
}

var strLits = map[string]*Term{}
var strLitList []string

func StrLit(v string) *Term {
	if t, ok := strLits[v]; ok {
		return t
	}
	t := mk("strlit", v, int64(len(strLits)), SStr)
	strLits[v] = t
	strLitList = append(strLitList, v)
	return t
}

func App(fn string, s *Sort, args ...*Term) *Term { return mk("app", fn, 0, s, args...) }

func Obj(family, serial *Term) *Term { return mk("obj", "", 0, SRef, family, serial) }
func ObjLit(family int64) *Term     { return Obj(IntLit(family), IntLit(0)) }
func Sub(p *Term, fid int64) *Term  { return mk("sub", "", fid, SRef, p) }
func Elem(b, i *Term) *Term         { return mk("elem", "", 0, SRef, b, i) }
func MKey(m, k *Term) *Term         { return mk("mkey", "", 0, SRef, m, k) }

func isLit(t *Term) bool { return t.Op == "int" || t.Op == "bool" || t.Op == "strlit" || t.Op == "nilref" }

func Not(a *Term) *Term {
	switch a.Op {
	case "bool":
		return BoolLit(a.Int == 0)
	case "not":
		return a.Args[0]
	}
	return mk("not", "", 0, SBool, a)
}

func And(as ...*Term) *Term {
	var out []*Term
	seen := map[int]bool{}
	for _, a := range as {
		if a == nil {
			continue
		}
		if a.Op == "bool" {
			if a.Int == 0 {
				return TFalse
			}
			continue
		}
		if a.Op == "and" {
			for _, b := range a.Args {
				if !seen[b.id] {
					seen[b.id] = true
					out = append(out, b)
				}
			}
			continue
		}
		if !seen[a.id] {
			seen[a.id] = true
			out = append(out, a)
		}
	}
	for _, a := range out {
		if a.Op == "not" && seen[a.Args[0].id] {
			return TFalse
		}
	}
	if len(out) == 0 {
		return TTrue
	}
	if len(out) == 1 {
		return out[0]
	}
	return mk("and", "", 0, SBool, out...)
}

func Or(as ...*Term) *Term {
	var out []*Term
	seen := map[int]bool{}
	for _, a := range as {
		if a == nil {
			continue
		}
		if a.Op == "bool" {
			if a.Int == 1 {
				return TTrue
			}
			continue
		}
		if a.Op == "or" {
			for _, b := range a.Args {
				if !seen[b.id] {
					seen[b.id] = true
					out = append(out, b)
				}
			}
			continue
		}
		if !seen[a.id] {
			seen[a.id] = true
			out = append(out, a)
		}
	}
	for _, a := range out {
		if a.Op == "not" && seen[a.Args[0].id] {
			return TTrue
		}
	}
	if len(out) == 0 {
		return TFalse
	}
	if len(out) == 1 {
		return out[0]
	}
	// complementary alternatives: (X && d) || (X && !d) -> X, and absorption X || (X && y) -> X
	if len(out) <= 24 {
		for changed := true; changed && len(out) > 1; {
			changed = false
		pairs:
			for i := 0; i < len(out); i++ {
				for j := 0; j < len(out); j++ {
					if i == j {
						continue
					}
					ci, cj := orConj(out[i]), orConj(out[j])
					// absorption: every conjunct of out[i] occurs in out[j]  =>  out[j] is redundant
					if len(ci) <= len(cj) && subsetOf(ci, cj) {
						out = append(out[:j], out[j+1:]...)
						changed = true
						break pairs
					}
					if len(ci) == len(cj) && i < j {
						if m := mergeComplement(ci, cj); m != nil {
							out[i] = m
							out = append(out[:j], out[j+1:]...)
							changed = true
							break pairs
						}
					}
				}
			}
		}
		if len(out) == 1 {
			return out[0]
		}
	}
	// factor conjuncts common to all alternatives: (P && a) || (P && b)  ->  P && (a || b).
	// Path conditions of merged states are of this shape; factoring keeps what holds on every path a top-level conjunct.
	conj := func(t *Term) []*Term {
		if t.Op == "and" {
			return t.Args
		}
		return []*Term{t}
	}
	common := map[int]*Term{}
	for _, c := range conj(out[0]) {
		common[c.id] = c
	}
	for _, a := range out[1:] {
		here := map[int]bool{}
		for _, c := range conj(a) {
			here[c.id] = true
		}
		for id := range common {
			if !here[id] {
				delete(common, id)
			}
		}
		if len(common) == 0 {
			break
		}
	}
	if len(common) > 0 {
		var cs []*Term
		for _, c := range conj(out[0]) { // keep the order of the first alternative
			if _, ok := common[c.id]; ok {
				cs = append(cs, c)
			}
		}
		var rests []*Term
		for _, a := range out {
			var r []*Term
			for _, c := range conj(a) {
				if _, ok := common[c.id]; !ok {
					r = append(r, c)
				}
			}
			rests = append(rests, And(r...))
		}
		return And(append(cs, Or(rests...))...)
	}
	return mk("or", "", 0, SBool, out...)
}

func orConj(t *Term) []*Term {
	if t.Op == "and" {
		return t.Args
	}
	return []*Term{t}
}

func subsetOf(a, b []*Term) bool {
	in := map[int]bool{}
	for _, x := range b {
		in[x.id] = true
	}
	for _, x := range a {
		if !in[x.id] {
			return false
		}
	}
	return true
}

// mergeComplement: the conjunction shared by a and b when they differ in exactly one conjunct and those two are negations
func mergeComplement(a, b []*Term) *Term {
	inB := map[int]bool{}
	for _, x := range b {
		inB[x.id] = true
	}
	inA := map[int]bool{}
	for _, x := range a {
		inA[x.id] = true
	}
	var da, db *Term
	for _, x := range a {
		if !inB[x.id] {
			if da != nil {
				return nil
			}
			da = x
		}
	}
	for _, x := range b {
		if !inA[x.id] {
			if db != nil {
				return nil
			}
			db = x
		}
	}
	if da == nil || db == nil || Not(da) != db {
		return nil
	}
	var rest []*Term
	for _, x := range a {
		if x != da {
			rest = append(rest, x)
		}
	}
	return And(rest...)
}

func Implies(a, b *Term) *Term {
	if a.Op == "bool" {
		if a.Int == 1 {
			return b
		}
		return TTrue
	}
	if b.Op == "bool" {
		if b.Int == 1 {
			return TTrue
		}
		return Not(a)
	}
	if a == b {
		return TTrue
	}
	return mk("=>", "", 0, SBool, a, b)
}

func Ite(c, a, b *Term) *Term {
	if c.Op == "bool" {
		if c.Int == 1 {
			return a
		}
		return b
	}
	if a == b {
		return a
	}
	if a.S == SBool {
		if a.Op == "bool" && b.Op == "bool" {
			if a.Int == 1 {
				return c
			}
			return Not(c)
		}
		if a.Op == "bool" {
			if a.Int == 1 {
				return Or(c, b)
			}
			return And(Not(c), b)
		}
		if b.Op == "bool" {
			if b.Int == 1 {
				return Or(Not(c), a)
			}
			return And(c, a)
		}
	}
	if c.Op == "not" {
		return Ite(c.Args[0], b, a)
	}
	// ite(c, x, ite(c, y, z)) -> ite(c, x, z)
	if b.Op == "ite" && b.Args[0] == c {
		return Ite(c, a, b.Args[2])
	}
	if a.Op == "ite" && a.Args[0] == c {
		return Ite(c, a.Args[1], b)
	}
	return mk("ite", "", 0, a.S, c, a, b)
}

// refCmp decides equality of two Ref terms syntactically: 1 equal, 0 different, -1 unknown
func refCmp(a, b *Term) int {
	if a == b {
		return 1
	}
	if a.S != SRef {
		return litCmp(a, b)
	}
	ca, cb := a.Op, b.Op
	isC := func(op string) bool { return op == "obj" || op == "sub" || op == "elem" || op == "nilref" || op == "mkey" }
	if isC(ca) && isC(cb) {
		if ca != cb {
			return 0
		}
		switch ca {
		case "nilref":
			return 1
		case "obj":
			f := litCmp(a.Args[0], b.Args[0])
			s := litCmp(a.Args[1], b.Args[1])
			if f == 0 || s == 0 {
				return 0
			}
			if f == 1 && s == 1 {
				return 1
			}
			return -1
		case "sub":
			if a.Int != b.Int {
				return 0
			}
			return refCmp(a.Args[0], b.Args[0])
		case "elem", "mkey":
			p := refCmp(a.Args[0], b.Args[0])
			i := litCmp(a.Args[1], b.Args[1])
			if p == 0 || i == 0 {
				return 0
			}
			if p == 1 && i == 1 {
				return 1
			}
			return -1
		}
	}
	// root bounds: a term known older than N differs from an object of family >= N
	la, ha := rootRange(a)
	lb, hb := rootRange(b)
	if ha != noBound && lb != noBound && ha < lb {
		return 0
	}
	if hb != noBound && la != noBound && hb < la {
		return 0
	}
	return -1
}

const noBound = int64(-1 << 62)

// rootRange returns (lo, hi) with lo <= rootid(t) <= hi when known (noBound when not)
type rr struct{ lo, hi int64 }

var rrMemo = map[int]rr{}

func rootRange(t *Term) (int64, int64) {
	if len(t.Args) == 0 {
		return rootRangeRaw(t)
	}
	if r, ok := rrMemo[t.id]; ok {
		return r.lo, r.hi
	}
	lo, hi := rootRangeRaw(t)
	rrMemo[t.id] = rr{lo, hi}
	return lo, hi
}

func rootRangeRaw(t *Term) (int64, int64) {
	switch t.Op {
	case "nilref":
		return 0, 0
	case "obj":
		if t.Args[0].Op == "int" {
			return t.Args[0].Int, t.Args[0].Int
		}
		return noBound, noBound
	case "sub", "elem", "mkey":
		return rootRange(t.Args[0])
	case "ite":
		l1, h1 := rootRange(t.Args[1])
		l2, h2 := rootRange(t.Args[2])
		lo, hi := noBound, noBound
		if l1 != noBound && l2 != noBound {
			lo = min64(l1, l2)
		}
		if h1 != noBound && h2 != noBound {
			hi = max64(h1, h2)
		}
		return lo, hi
	case "select":
		if b := contentBound(t.Args[0]); b != 0 {
			return noBound, b - 1
		}
	case "var":
		if t.Bound != 0 {
			return noBound, t.Bound - 1
		}
	}
	return noBound, noBound
}

// contentBound: every Ref stored in array term a has rootid < bound (0 unknown)
var cbMemo = map[int]int64{}

func contentBound(a *Term) int64 {
	if len(a.Args) == 0 {
		return contentBoundRaw(a)
	}
	if r, ok := cbMemo[a.id]; ok {
		return r
	}
	r := contentBoundRaw(a)
	cbMemo[a.id] = r
	return r
}

func contentBoundRaw(a *Term) int64 {
	switch a.Op {
	case "var":
		return a.Bound
	case "havocabove", "havocfam":
		return a.Bound
	case "store":
		b := contentBound(a.Args[0])
		if b == 0 {
			return 0
		}
		_, hv := rootRange(a.Args[2])
		if a.Args[2].S != SRef {
			return b
		}
		if hv == noBound {
			return 0
		}
		return max64(b, hv+1)
	case "ite":
		b1 := contentBound(a.Args[1])
		b2 := contentBound(a.Args[2])
		if b1 == 0 || b2 == 0 {
			return 0
		}
		return max64(b1, b2)
	}
	return 0
}

func min64(a, b int64) int64 {
	if a < b {
		return a
	}
	return b
}
func max64(a, b int64) int64 {
	if a > b {
		return a
	}
	return b
}

func litCmp(a, b *Term) int {
	if a == b {
		return 1
	}
	if isLit(a) && isLit(b) {
		return 0 // hash-consed: different literal terms are different values
	}
	if a.S == SRef {
		return refCmp(a, b)
	}
	return -1
}

var eqMemo = map[selKey]*Term{}

func Eq(a, b *Term) *Term {
	k := selKey{a.id, b.id, false}
	if a.id > b.id {
		k = selKey{b.id, a.id, false}
	}
	if r, ok := eqMemo[k]; ok {
		return r
	}
	r := eqRaw(a, b)
	eqMemo[k] = r
	return r
}

func eqRaw(a, b *Term) *Term {
	if a.S != b.S {
		panic(fmt.Sprintf("Eq sort mismatch %s:%s vs %s:%s", a, a.S, b, b.S))
	}
	if a.S == SBool {
		if a.Op == "bool" {
			if a.Int == 1 {
				return b
			}
			return Not(b)
		}
		if b.Op == "bool" {
			if b.Int == 1 {
				return a
			}
			return Not(a)
		}
	}
	switch refCmp(a, b) {
	case 1:
		return TTrue
	case 0:
		return TFalse
	}
	// push equality through ite with literal branches (keeps closure dispatch and nil tests small)
	if a.Op == "ite" && (isLit(b) || b.Op == "obj") {
		return Ite(a.Args[0], Eq(a.Args[1], b), Eq(a.Args[2], b))
	}
	if b.Op == "ite" && (isLit(a) || a.Op == "obj") {
		return Ite(b.Args[0], Eq(a, b.Args[1]), Eq(a, b.Args[2]))
	}
	if a.id > b.id {
		a, b = b, a
	}
	return mk("=", "", 0, SBool, a, b)
}

func Lt(a, b *Term) *Term {
	if a.Op == "int" && b.Op == "int" {
		return BoolLit(a.Int < b.Int)
	}
	if a == b {
		return TFalse
	}
	return mk("<", "", 0, SBool, a, b)
}
func Le(a, b *Term) *Term {
	if a.Op == "int" && b.Op == "int" {
		return BoolLit(a.Int <= b.Int)
	}
	if a == b {
		return TTrue
	}
	return mk("<=", "", 0, SBool, a, b)
}

func Add(a, b *Term) *Term {
	if a.Op == "int" && b.Op == "int" {
		return IntLit(a.Int + b.Int)
	}
	if a.Op == "int" && a.Int == 0 {
		return b
	}
	if b.Op == "int" && b.Int == 0 {
		return a
	}
	// (x + c1) + c2
	if b.Op == "int" && a.Op == "+" && a.Args[1].Op == "int" {
		return Add(a.Args[0], IntLit(a.Args[1].Int+b.Int))
	}
	if a.Op == "ite" && b.Op == "int" && a.Args[1].Op == "int" && a.Args[2].Op == "int" {
		return Ite(a.Args[0], IntLit(a.Args[1].Int+b.Int), IntLit(a.Args[2].Int+b.Int))
	}
	return mk("+", "", 0, SInt, a, b)
}
func SubI(a, b *Term) *Term {
	if a.Op == "int" && b.Op == "int" {
		return IntLit(a.Int - b.Int)
	}
	if b.Op == "int" {
		return Add(a, IntLit(-b.Int))
	}
	if a == b {
		return IntLit(0)
	}
	return mk("-", "", 0, SInt, a, b)
}
func Mul(a, b *Term) *Term {
	if a.Op == "int" && b.Op == "int" {
		return IntLit(a.Int * b.Int)
	}
	return mk("*", "", 0, SInt, a, b)
}

type selKey struct {
	a, i int
	lift bool
}

var selMemo = map[selKey]*Term{}

// liftMode: resolve case distinctions inside addresses (only while contract clauses are evaluated: the reads of a
// postcondition go through the merged exit state, where addresses are case distinctions over the paths)
var liftMode bool

func iteLeaves(t *Term, max int) int {
	if t.Op != "ite" || max <= 0 {
		return 1
	}
	n := iteLeaves(t.Args[1], max-1)
	return n + iteLeaves(t.Args[2], max-n)
}

func Select(a, i *Term) *Term {
	k := selKey{a.id, i.id, liftMode}
	if r, ok := selMemo[k]; ok {
		return r
	}
	r := selectRaw(a, i)
	selMemo[k] = r
	return r
}

// liftIte moves a case distinction out of an address: sub(ite(c,x,y), f) -> ite(c, sub(x,f), sub(y,f))
var liftMemo = map[int]*Term{}

func liftIte(i *Term) *Term {
	switch i.Op {
	case "sub", "elem", "mkey":
	default:
		return i
	}
	if r, ok := liftMemo[i.id]; ok {
		return r
	}
	b := liftIte(i.Args[0])
	r := i
	if b.Op == "ite" {
		mkc := func(x *Term) *Term {
			switch i.Op {
			case "sub":
				return liftIte(Sub(x, i.Int))
			case "elem":
				return liftIte(Elem(x, i.Args[1]))
			}
			return liftIte(MKey(x, i.Args[1]))
		}
		r = Ite(b.Args[0], mkc(b.Args[1]), mkc(b.Args[2]))
	}
	liftMemo[i.id] = r
	return r
}

func selectRaw(a, i *Term) *Term {
	if i.S == SRef {
		// case distinctions in the address are resolved per case, so that each case can be decided syntactically
		// (while code is executed only small ones: large ones arise from merged paths and would multiply the terms)
		lim := 3
		if liftMode {
			lim = 200
		}
		if j := liftIte(i); j.Op == "ite" && iteLeaves(j, lim) <= lim && (liftMode || a.Op != "var" || true) {
			return Ite(j.Args[0], Select(a, j.Args[1]), Select(a, j.Args[2]))
		}
	}
	for {
		switch a.Op {
		case "store":
			switch refCmp(a.Args[1], i) {
			case 1:
				return a.Args[2]
			case 0:
				a = a.Args[0]
				if r, ok := selMemo[selKey{a.id, i.id, liftMode}]; ok {
					return r
				}
				continue
			}
		case "havocfam":
			if excludesFamily(i, a.Int) {
				a = a.Args[0]
				continue
			}
			if lo, hi := rootRange(i); lo == hi && lo == a.Int {
				a = a.Args[1]
				continue
			}
		case "havocabove":
			// array equal to Args[0] on references older than Int, arbitrary (Args[1]) above
			lo, hi := rootRange(i)
			if hi != noBound && hi < a.Int {
				a = a.Args[0]
				continue
			}
			if lo != noBound && lo >= a.Int {
				a = a.Args[1]
				continue
			}
		case "ite":
			return Ite(a.Args[0], Select(a.Args[1], i), Select(a.Args[2], i))
		}
		break
	}
	return mk("select", "", 0, a.S.Val, a, i)
}

func Store(a, i, v *Term) *Term {
	if v.S != a.S.Val {
		panic(fmt.Sprintf("Store sort mismatch: array %s value %s:%s", a.S, v, v.S))
	}
	if a.Op == "store" && refCmp(a.Args[1], i) == 1 {
		a = a.Args[0]
	}
	return mk("store", "", 0, a.S, a, i, v)
}

// HavocAbove(a, n, fresh): array equal to a on refs with rootid < n, equal to fresh elsewhere
func HavocAbove(a *Term, n int64, fresh *Term) *Term {
	t := mk("havocabove", "", n, a.S, a, fresh)
	cb := contentBound(a)
	fb := contentBound(fresh)
	if cb != 0 && fb != 0 {
		t.Bound = max64(cb, fb)
	}
	return t
}

func Forall(vars []*Term, body *Term) *Term {
	if body.Op == "bool" {
		return body
	}
	t := mk("forall", qname(vars), 0, SBool, body)
	t.Bvars = vars
	t.HasBound = hasFreeBound(t)
	return t
}
func Exists(vars []*Term, body *Term) *Term {
	if body.Op == "bool" {
		return body
	}
	t := mk("exists", qname(vars), 0, SBool, body)
	t.Bvars = vars
	t.HasBound = hasFreeBound(t)
	return t
}
func qname(vars []*Term) string {
	var s []string
	for _, v := range vars {
		s = append(s, v.Name+":"+v.S.String())
	}
	return strings.Join(s, ",")
}

// hasFreeBound: does t mention a bound variable not bound inside t
func hasFreeBound(t *Term) bool {
	free := map[string]bool{}
	var walk func(t *Term, bound map[string]bool)
	seen := map[int]bool{}
	walk = func(t *Term, bound map[string]bool) {
		if !t.HasBound && t.Op != "forall" && t.Op != "exists" {
			return
		}
		if len(bound) == 0 {
			if seen[t.id] {
				return
			}
			seen[t.id] = true
		}
		if t.Op == "bound" {
			if !bound[t.Name] {
				free[t.Name] = true
			}
			return
		}
		if t.Op == "forall" || t.Op == "exists" {
			nb := map[string]bool{}
			for k := range bound {
				nb[k] = true
			}
			for _, v := range t.Bvars {
				nb[v.Name] = true
			}
			walk(t.Args[0], nb)
			return
		}
		for _, a := range t.Args {
			walk(a, bound)
		}
	}
	walk(t, map[string]bool{})
	return len(free) > 0
}

// Subst replaces bound/var terms by name
func Subst(t *Term, m map[*Term]*Term) *Term {
	memo := map[int]*Term{}
	var rec func(t *Term) *Term
	rec = func(t *Term) *Term {
		if r, ok := m[t]; ok {
			return r
		}
		if len(t.Args) == 0 {
			return t
		}
		if r, ok := memo[t.id]; ok {
			return r
		}
		args := make([]*Term, len(t.Args))
		ch := false
		for i, a := range t.Args {
			args[i] = rec(a)
			if args[i] != a {
				ch = true
			}
		}
		var r *Term
		if !ch {
			r = t
		} else {
			r = rebuild(t, args)
		}
		memo[t.id] = r
		return r
	}
	return rec(t)
}

func rebuild(t *Term, a []*Term) *Term {
	switch t.Op {
	case "not":
		return Not(a[0])
	case "and":
		return And(a...)
	case "or":
		return Or(a...)
	case "=>":
		return Implies(a[0], a[1])
	case "ite":
		return Ite(a[0], a[1], a[2])
	case "=":
		return Eq(a[0], a[1])
	case "<":
		return Lt(a[0], a[1])
	case "<=":
		return Le(a[0], a[1])
	case "+":
		return Add(a[0], a[1])
	case "-":
		return SubI(a[0], a[1])
	case "*":
		return Mul(a[0], a[1])
	case "select":
		return Select(a[0], a[1])
	case "store":
		return Store(a[0], a[1], a[2])
	case "forall":
		return Forall(t.Bvars, a[0])
	case "exists":
		return Exists(t.Bvars, a[0])
	case "obj":
		return Obj(a[0], a[1])
	case "sub":
		return Sub(a[0], t.Int)
	case "elem":
		return Elem(a[0], a[1])
	case "mkey":
		return MKey(a[0], a[1])
	case "havocabove":
		return HavocAbove(a[0], t.Int, a[1])
	case "havocfam":
		return HavocFam(a[0], t.Int, a[1])
	case "app":
		return appSimp(t.Name, t.S, a...)
	}
	return mk(t.Op, t.Name, t.Int, t.S, a...)
}

// ---- strings ----

func Concat(a, b *Term) *Term {
	parts := append(concatParts(a), concatParts(b)...)
	var out []*Term
	for _, p := range parts {
		if p.Op == "strlit" && p.Name == "" {
			continue
		}
		if len(out) > 0 && out[len(out)-1].Op == "strlit" && p.Op == "strlit" {
			out[len(out)-1] = StrLit(out[len(out)-1].Name + p.Name)
			continue
		}
		out = append(out, p)
	}
	if len(out) == 0 {
		return StrLit("")
	}
	r := out[len(out)-1]
	for i := len(out) - 2; i >= 0; i-- {
		r = mk("app", "concat", 0, SStr, out[i], r)
	}
	return r
}
func concatParts(t *Term) []*Term {
	if t.Op == "app" && t.Name == "concat" {
		return append(concatParts(t.Args[0]), concatParts(t.Args[1])...)
	}
	return []*Term{t}
}
var lenMemo = map[int]*Term{}

func StrLen(t *Term) *Term {
	if r, ok := lenMemo[t.id]; ok {
		return r
	}
	r := strLenRaw(t)
	lenMemo[t.id] = r
	return r
}

func strLenRaw(t *Term) *Term {
	if t.Op == "strlit" {
		return IntLit(int64(len(t.Name)))
	}
	if t.Op == "app" && t.Name == "concat" {
		return Add(StrLen(t.Args[0]), StrLen(t.Args[1]))
	}
	if t.Op == "ite" {
		return Ite(t.Args[0], StrLen(t.Args[1]), StrLen(t.Args[2]))
	}
	return mk("app", "strlen", 0, SInt, t)
}
func appSimp(name string, s *Sort, a ...*Term) *Term {
	switch name {
	case "concat":
		return Concat(a[0], a[1])
	case "strlen":
		return StrLen(a[0])
	case "rootid":
		return RootID(a[0])
	}
	return App(name, s, a...)
}

var rootMemo = map[int]*Term{}

func RootID(t *Term) *Term {
	if r, ok := rootMemo[t.id]; ok {
		return r
	}
	r := rootIDRaw(t)
	rootMemo[t.id] = r
	return r
}

func rootIDRaw(t *Term) *Term {
	switch t.Op {
	case "nilref":
		return IntLit(0)
	case "obj":
		return t.Args[0]
	case "sub", "elem", "mkey":
		return RootID(t.Args[0])
	case "ite":
		return Ite(t.Args[0], RootID(t.Args[1]), RootID(t.Args[2]))
	}
	return mk("app", "rootid", 0, SInt, t)
}

// ---- printing ----

func (t *Term) String() string { return termPreview(t, 2000) }

// termPreview prints t as an S-expression, stopping after about max bytes (terms are DAGs: a full tree print can be exponential)
func termPreview(t *Term, max int) string {
	var sb strings.Builder
	var rec func(t *Term, depth int)
	rec = func(t *Term, depth int) {
		if sb.Len() > max {
			return
		}
		switch t.Op {
		case "int":
			sb.WriteString(strconv.FormatInt(t.Int, 10))
			return
		case "bool":
			if t.Int == 1 {
				sb.WriteString("true")
			} else {
				sb.WriteString("false")
			}
			return
		case "nilref":
			sb.WriteString("nil")
			return
		case "strlit":
			sb.WriteString(strconv.Quote(t.Name))
			return
		case "var", "bound":
			sb.WriteString(t.Name)
			return
		}
		if depth > 12 {
			sb.WriteString("...")
			return
		}
		sb.WriteByte('(')
		switch t.Op {
		case "app":
			sb.WriteString(t.Name)
		case "sub":
			sb.WriteString("field:" + fieldIDNames[t.Int])
		case "forall", "exists":
			sb.WriteString(t.Op + " " + t.Name + " ::")
		default:
			sb.WriteString(t.Op)
		}
		for _, a := range t.Args {
			sb.WriteByte(' ')
			rec(a, depth+1)
			if sb.Len() > max {
				sb.WriteString(" ...")
				break
			}
		}
		sb.WriteByte(')')
	}
	rec(t, 0)
	return sb.String()
}

type printer struct {
	ground bool // omit quantified axioms (frame axioms of havoc arrays, string/rootid axioms): a relaxation
	inline bool
	names  map[int]string
	defs   []string
	decls  map[string]string // symbol -> declaration
	order  []string
	usesRootID, usesStrlen, usesConcat bool
}

func smtSym(s string) string {
	ok := true
	for _, c := range s {
		if !(c >= 'a' && c <= 'z' || c >= 'A' && c <= 'Z' || c >= '0' && c <= '9' || c == '_' || c == '.' || c == '$' || c == '#' || c == '!' || c == '-' || c == '@' || c == '/' || c == '*') {
			ok = false
		}
	}
	if ok && s != "" {
		return s
	}
	return "|" + strings.NewReplacer("|", "!", "\\", "/").Replace(s) + "|"
}

func (p *printer) declare(sym, decl string) {
	if p.decls == nil {
		p.decls = map[string]string{}
	}
	if _, ok := p.decls[sym]; !ok {
		p.decls[sym] = decl
		p.order = append(p.order, sym)
	}
}

func (p *printer) expr(t *Term) string {
	if n, ok := p.names[t.id]; ok {
		return n
	}
	var s string
	switch t.Op {
	case "int":
		if t.Int < 0 {
			s = fmt.Sprintf("(- %d)", -t.Int)
		} else {
			s = strconv.FormatInt(t.Int, 10)
		}
		return s
	case "bool":
		if t.Int == 1 {
			return "true"
		}
		return "false"
	case "nilref":
		return "nilref"
	case "strlit":
		sym := fmt.Sprintf("str!%d", t.Int)
		p.declare(sym, fmt.Sprintf("(declare-const %s Str) ; %q", sym, t.Name))
		return sym
	case "var":
		sym := smtSym(t.Name)
		decl := fmt.Sprintf("(declare-const %s %s)", sym, t.S)
		// age bounds the simplifier knows are told to the solver as well
		if t.Bound != 0 && t.S == SRef {
			p.usesRootID = true
			decl += fmt.Sprintf("\n(assert (< (rootid %s) %d))", sym, t.Bound)
			if !(t.GapLo == 0 && t.GapHi == 0) {
				decl += fmt.Sprintf("\n(assert (or (< (rootid %s) %d) (> (rootid %s) %d)))", sym, t.GapLo, sym, t.GapHi)
			}
		}
		if t.Bound != 0 && t.S.Name == "Array" && t.S.Val == SRef && !p.ground {
			p.usesRootID = true
			decl += fmt.Sprintf("\n(assert (forall ((r!q Ref)) (! (< (rootid (select %s r!q)) %d) :pattern ((select %s r!q)))))", sym, t.Bound, sym)
			if !(t.GapLo == 0 && t.GapHi == 0) {
				decl += fmt.Sprintf("\n(assert (forall ((r!q Ref)) (! (or (< (rootid (select %s r!q)) %d) (> (rootid (select %s r!q)) %d)) :pattern ((select %s r!q)))))", sym, t.GapLo, sym, t.GapHi, sym)
			}
		}
		p.declare(sym, decl)
		return sym
	case "bound":
		return smtSym(t.Name)
	case "app":
		sym := smtSym(t.Name)
		if t.Name == "concat" {
			sym = "strcat"
		}
		switch t.Name {
		case "rootid":
			p.usesRootID = true
		case "strlen":
			p.usesStrlen = true
		case "concat":
			p.usesConcat = true
		default:
			var as []string
			for _, a := range t.Args {
				as = append(as, a.S.String())
			}
			p.declare(sym, fmt.Sprintf("(declare-fun %s (%s) %s)", sym, strings.Join(as, " "), t.S))
		}
		if len(t.Args) == 0 {
			return sym
		}
		s = "(" + sym + p.args(t.Args) + ")"
	case "obj":
		s = "(obj" + p.args(t.Args) + ")"
	case "sub":
		s = fmt.Sprintf("(sub %s %d)", p.expr(t.Args[0]), t.Int)
	case "elem":
		s = "(elem" + p.args(t.Args) + ")"
	case "mkey":
		s = "(mkey" + p.args(t.Args) + ")"
	case "forall", "exists":
		var vs []string
		for _, v := range t.Bvars {
			vs = append(vs, fmt.Sprintf("(%s %s)", smtSym(v.Name), v.S))
		}
		// subterms that mention a bound variable cannot become top-level definitions; the ones that occur more than once in the
		// body are bound by let, otherwise a DAG-shaped body (reads through merged heaps) is printed as an exponential tree
		cnt := map[int]int{}
		var order []*Term
		var walk func(x *Term)
		walk = func(x *Term) {
			if !x.HasBound || x.Op == "bound" {
				return
			}
			cnt[x.id]++
			if cnt[x.id] > 1 {
				return
			}
			if x.Op != "forall" && x.Op != "exists" {
				for _, a := range x.Args {
					walk(a)
				}
			}
			order = append(order, x)
		}
		walk(t.Args[0])
		var local []int
		var lets []string
		for _, x := range order {
			if cnt[x.id] > 1 {
				if _, named := p.names[x.id]; named {
					continue
				}
				str := p.expr(x)
				if len(str) <= 24 {
					continue
				}
				nm := fmt.Sprintf("b!%d", x.id)
				lets = append(lets, fmt.Sprintf("(let ((%s %s)) ", nm, str))
				p.names[x.id] = nm
				local = append(local, x.id)
			}
		}
		body := p.expr(t.Args[0])
		for _, id := range local {
			delete(p.names, id)
		}
		s = fmt.Sprintf("(%s (%s) %s%s%s)", t.Op, strings.Join(vs, " "), strings.Join(lets, ""), body, strings.Repeat(")", len(lets)))
	case "havocfam":
		sym := fmt.Sprintf("hf!%d", t.id)
		a := p.expr(t.Args[0])
		f := p.expr(t.Args[1])
		p.usesRootID = true
		if p.ground {
			p.defs = append(p.defs, fmt.Sprintf("(declare-const %s %s)", sym, t.S))
		} else {
			p.defs = append(p.defs, fmt.Sprintf("(declare-const %s %s)\n(assert (forall ((r!q Ref)) (! (= (select %s r!q) (ite (= (rootid r!q) %d) (select %s r!q) (select %s r!q))) :pattern ((select %s r!q)))))", sym, t.S, sym, t.Int, f, a, sym))
		}
		p.names[t.id] = sym
		return sym
	case "havocabove":
		// fresh array constant with a frame axiom
		sym := fmt.Sprintf("hv!%d", t.id)
		a := p.expr(t.Args[0])
		f := p.expr(t.Args[1])
		p.usesRootID = true
		if p.ground {
			p.defs = append(p.defs, fmt.Sprintf("(declare-const %s %s)", sym, t.S))
		} else {
			p.defs = append(p.defs, fmt.Sprintf("(declare-const %s %s)\n(assert (forall ((r!q Ref)) (! (= (select %s r!q) (ite (< (rootid r!q) %d) (select %s r!q) (select %s r!q))) :pattern ((select %s r!q)))))", sym, t.S, sym, t.Int, a, f, sym))
		}
		p.names[t.id] = sym
		return sym
	default:
		s = "(" + t.Op + p.args(t.Args) + ")"
	}
	if !p.inline && !t.HasBound && len(s) > 24 {
		n := fmt.Sprintf("n!%d", t.id)
		p.defs = append(p.defs, fmt.Sprintf("(define-fun %s () %s %s)", n, t.S, s))
		p.names[t.id] = n
		return n
	}
	return s
}

func (p *printer) args(as []*Term) string {
	var sb strings.Builder
	for _, a := range as {
		sb.WriteByte(' ')
		sb.WriteString(p.expr(a))
	}
	return sb.String()
}

const smtPrelude = `(declare-sort Str 0)
(declare-datatypes ((Ref 0)) (((nilref) (obj (family Int) (serial Int)) (sub (parent Ref) (fld Int)) (elem (base Ref) (idx Int)) (mkey (mapof Ref) (mapkey Str)))))
(declare-fun rootid (Ref) Int)
`

// Query renders: assumptions /\ not goal
func smtQuery(assumptions []*Term, goal *Term, wantModel bool, modelTerms map[string]*Term) string {
	return smtQueryG(assumptions, goal, wantModel, modelTerms, false)
}

func hasQuant(t *Term) bool {
	if r, ok := quantMemo[t.id]; ok {
		return r
	}
	r := t.Op == "forall" || t.Op == "exists"
	if !r {
		for _, a := range t.Args {
			if hasQuant(a) {
				r = true
				break
			}
		}
	}
	quantMemo[t.id] = r
	return r
}

var quantMemo = map[int]bool{}

func smtQueryG(assumptions []*Term, goal *Term, wantModel bool, modelTerms map[string]*Term, ground bool) string {
	p := &printer{names: map[int]string{}, ground: ground}
	if ground {
		var keep []*Term
		for _, a := range assumptions {
			if !hasQuant(a) {
				keep = append(keep, a)
			}
		}
		assumptions = keep
	}
	p.expr(StrLit(""))
	var asserts []string
	for _, a := range assumptions {
		e := p.expr(a)
		asserts = append(asserts, p.flush()+"(assert "+e+")")
	}
	if goal != nil {
		e := p.expr(Not(goal))
		asserts = append(asserts, p.flush()+"(assert "+e+")")
	}
	var mnames []string
	var mdefs []string
	for n, t := range modelTerms {
		e := p.expr(t)
		mdefs = append(mdefs, p.flush()+fmt.Sprintf("(define-fun %s () %s %s)", smtSym("m!"+n), t.S, e))
		mnames = append(mnames, smtSym("m!"+n))
	}
	sort.Strings(mnames)
	var sb strings.Builder
	if wantModel {
		sb.WriteString("(set-option :produce-models true)\n")
	}
	sb.WriteString("(set-logic ALL)\n")
	sb.WriteString(smtPrelude)
	// string literals: distinct, with their lengths
	var lits []string
	for _, sym := range p.order {
		if strings.HasPrefix(sym, "str!") {
			lits = append(lits, sym)
		}
	}
	for _, sym := range p.order {
		sb.WriteString(p.decls[sym])
		sb.WriteByte('\n')
	}
	if ground {
		sb.WriteString("(declare-fun strlen (Str) Int)\n(declare-fun strcat (Str Str) Str)\n")
	}
	if !ground {
		sb.WriteString("(declare-fun strlen (Str) Int)\n(assert (forall ((s!q Str)) (! (>= (strlen s!q) 0) :pattern ((strlen s!q)))))\n")
	}
	if p.usesConcat && !ground {
		sb.WriteString("(declare-fun strcat (Str Str) Str)\n(assert (forall ((a!q Str) (b!q Str)) (! (= (strlen (strcat a!q b!q)) (+ (strlen a!q) (strlen b!q))) :pattern ((strcat a!q b!q)))))\n(assert (forall ((a!q Str)) (! (= (strcat " + p.emptySym() + " a!q) a!q) :pattern ((strcat " + p.emptySym() + " a!q)))))\n(assert (forall ((a!q Str)) (! (= (strcat a!q " + p.emptySym() + ") a!q) :pattern ((strcat a!q " + p.emptySym() + ")))))\n(assert (forall ((a!q Str) (b!q Str) (c!q Str)) (! (= (strcat (strcat a!q b!q) c!q) (strcat a!q (strcat b!q c!q))) :pattern ((strcat (strcat a!q b!q) c!q)))))\n")
	}
	if p.usesRootID && !ground {
		sb.WriteString("(assert (= (rootid nilref) 0))\n(assert (forall ((f!q Int) (s!q Int)) (! (= (rootid (obj f!q s!q)) f!q) :pattern ((obj f!q s!q)))))\n(assert (forall ((p!q Ref) (f!q Int)) (! (= (rootid (sub p!q f!q)) (rootid p!q)) :pattern ((sub p!q f!q)))))\n(assert (forall ((p!q Ref) (i!q Int)) (! (= (rootid (elem p!q i!q)) (rootid p!q)) :pattern ((elem p!q i!q)))))\n(assert (forall ((p!q Ref) (k!q Str)) (! (= (rootid (mkey p!q k!q)) (rootid p!q)) :pattern ((mkey p!q k!q)))))\n")
	}
	if len(lits) > 1 {
		sb.WriteString("(assert (distinct " + strings.Join(lits, " ") + "))\n")
	}
	for _, sym := range lits {
		k, _ := strconv.Atoi(sym[4:])
		sb.WriteString(fmt.Sprintf("(assert (= (strlen %s) %d))\n", sym, len(strLitList[k])))
	}
	if !ground {
		sb.WriteString("(assert (forall ((s!q Str)) (! (=> (= (strlen s!q) 0) (= s!q " + p.emptySym() + ")) :pattern ((strlen s!q)))))\n")
	}
	for _, a := range asserts {
		sb.WriteString(a)
		sb.WriteByte('\n')
	}
	for _, d := range mdefs {
		sb.WriteString(d)
		sb.WriteByte('\n')
	}
	sb.WriteString("(check-sat)\n")
	if wantModel && len(mnames) > 0 {
		sb.WriteString("(get-value (" + strings.Join(mnames, " ") + "))\n")
	}
	return sb.String()
}

func (p *printer) emptySym() string {
	return fmt.Sprintf("str!%d", StrLit("").Int)
}

func (p *printer) flush() string {
	if len(p.defs) == 0 {
		return ""
	}
	s := strings.Join(p.defs, "\n") + "\n"
	p.defs = nil
	return s
}

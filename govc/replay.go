package main

// Counterexample replay. For a function with a registered driver a failed obligation is re-examined in refutation
// mode (loops unrolled up to a small bound instead of cut at their invariants, callees inlined), which turns the
// postcondition into a quantifier-free question the solver can answer with a model. The model is concretised into Go
// values, and a generated in-package test (injected with `go test -overlay`, the repository is not touched) runs the REAL
// function on them and evaluates an oracle written from the property statement. Only a run in which the real code
// violates the oracle counts as a reproduced counterexample.

import (
	"encoding/json"
	"fmt"
	"go/types"
	"os"
	"os/exec"
	"path/filepath"
	"regexp"
	"sort"
	"strconv"
	"strings"
)

type replayDriver func(p *Program, prop string, o *Obligation, dir string) map[string]interface{}

var replayDrivers = map[string]replayDriver{
	"provider.GetAcsUrlAndBindingForResponse": replayGetAcs,
}

func tryReplay(p *Program, prop string, o *Obligation, vc *VC, dir string) (res map[string]interface{}) {
	if vc == nil || vc.top == nil {
		return nil
	}
	d := replayDrivers[p.shortName(vc.top)]
	if d == nil {
		return map[string]interface{}{"attempted": false, "reason": "no replay driver for " + p.shortName(vc.top) + " (drivers exist for: " + strings.Join(driverNames(), ", ") + ")"}
	}
	defer func() {
		if r := recover(); r != nil {
			res = map[string]interface{}{"attempted": true, "reproduced": false, "reason": fmt.Sprintf("replay machinery failed: %v", r)}
		}
	}()
	return d(p, prop, o, dir)
}

func driverNames() []string {
	var ns []string
	for n := range replayDrivers {
		ns = append(ns, n)
	}
	sort.Strings(ns)
	return ns
}

var valueLine = regexp.MustCompile(`\(\s*(\|[^|]*\||[^\s()]+)\s+(.*?)\)\s*$`)

// modelValues asks z3 for a model of assumptions /\ not goal and returns the values of the named terms
func modelValues(as []*Term, goal *Term, terms map[string]*Term, dir, name string) (map[string]string, string) {
	termMu.Lock()
	q := smtQueryG(as, goal, true, terms, true)
	termMu.Unlock()
	file := filepath.Join(dir, name+".smt2")
	os.WriteFile(file, []byte(q), 0o644)
	if k := os.Getenv("GOVC_KEEP_REPLAY"); k != "" {
		os.WriteFile(filepath.Join(k, name+".smt2"), []byte(q), 0o644)
	}
	out, _ := exec.Command("z3-new", "-T:20", file).CombinedOutput()
	text := string(out)
	lines := strings.Split(text, "\n")
	if len(lines) == 0 || strings.TrimSpace(lines[0]) != "sat" {
		return nil, strings.TrimSpace(lines[0])
	}
	vals := map[string]string{}
	for _, l := range lines[1:] {
		l = strings.TrimSpace(l)
		if strings.HasPrefix(l, "((") {
			l = l[1:]
		}
		if m := valueLine.FindStringSubmatch(l); m != nil {
			k := strings.Trim(m[1], "|")
			k = strings.TrimPrefix(k, "m!")
			vals[k] = strings.TrimSpace(strings.TrimSuffix(strings.TrimSpace(m[2]), ")"))
		}
	}
	return vals, "sat"
}

func smtInt(s string) (int64, bool) {
	s = strings.TrimSpace(s)
	s = strings.ReplaceAll(strings.ReplaceAll(strings.ReplaceAll(s, "(", " "), ")", " "), "  ", " ")
	f := strings.Fields(s)
	if len(f) == 2 && f[0] == "-" {
		n, err := strconv.ParseInt(f[1], 10, 64)
		return -n, err == nil
	}
	if len(f) == 1 {
		n, err := strconv.ParseInt(f[0], 10, 64)
		return n, err == nil
	}
	return 0, false
}

// replayGetAcs: GetAcsUrlAndBindingForResponse(acs []md.IndexedEndpointType, requestProtocolBinding string)
func replayGetAcs(p *Program, prop string, o *Obligation, dir string) map[string]interface{} {
	f := p.byName["provider.GetAcsUrlAndBindingForResponse"]
	ct := p.contractFor(f)
	vc, err := p.verifyFunctionOpt(f, ct, false, true, 4)
	if err != nil {
		return map[string]interface{}{"attempted": true, "reproduced": false, "reason": "refutation-mode execution failed: " + firstLines(err.Error(), 2)}
	}
	base := strings.SplitN(o.Name, "#", 2)[0]
	const maxN = 4
	acs, ok := vc.paramVals[0].(SliceV)
	req, ok2 := vc.paramVals[1].(*Term)
	if !ok || !ok2 {
		return map[string]interface{}{"attempted": true, "reproduced": false, "reason": "unexpected parameter shapes"}
	}
	elemT := sliceElem(f.Params[0].Type())
	fields := []string{"Index", "IsDefault", "Binding", "Location"}
	tried := 0
	var last map[string]interface{}
	for _, ro := range vc.obls {
		// any postcondition that fails on a bounded unrolling yields an input; the clause the obligation belongs to is tried first
		if ro.Kind != "post" || ro.Aux {
			continue
		}
		_ = base
		tried++
		terms := map[string]*Term{"n": acs.Len, "req": req, "lit_empty": StrLit(""), "lit_true": StrLit("true"), "lit_1": StrLit("1")}
		for i := 0; i < maxN; i++ {
			sv := vc.preState.load(Elem(acs.Base, IntLit(int64(i))), elemT).(StructV)
			for _, fn := range fields {
				t := structField(sv, fn)
				terms[fmt.Sprintf("%s_%d", fn, i)] = t
				if fn == "Index" {
					terms[fmt.Sprintf("atoi_%d", i)] = App("atoi", SInt, t)
				}
			}
		}
		as := append([]*Term{}, vc.facts[:ro.NFacts]...)
		as = append(as, ro.Reach, Le(acs.Len, IntLit(maxN)))
		vals, verdict := modelValues(as, ro.Goal, terms, dir, fmt.Sprintf("replay_%d", tried))
		if vals == nil {
			continue
		}
		n, _ := smtInt(vals["n"])
		if n < 0 || n > maxN {
			continue
		}
		// concretise the uninterpreted strings: literals keep their text, everything else gets a distinct name
		text := map[string]string{vals["lit_empty"]: "", vals["lit_true"]: "true", vals["lit_1"]: "1"}
		fresh := 0
		str := func(abs string) string {
			if s, ok := text[abs]; ok {
				return s
			}
			fresh++
			s := fmt.Sprintf("urn:x:s%d", fresh)
			text[abs] = s
			return s
		}
		type entry struct{ Index, IsDefault, Binding, Location string }
		var es []entry
		usedIdx := map[string]bool{}
		for i := 0; i < int(n); i++ {
			var e entry
			// Index: a decimal string with the value the model gives atoi(Index); distinct abstract strings stay distinct
			av := vals[fmt.Sprintf("Index_%d", i)]
			if s, ok := text["idx:"+av]; ok {
				e.Index = s
			} else {
				k, _ := smtInt(vals[fmt.Sprintf("atoi_%d", i)])
				if k < 0 {
					k = 0 // the contract's domain is xs:unsignedShort; strconv.Atoi of a non-number is 0 as well
				}
				s := strconv.FormatInt(k, 10)
				for usedIdx[s] {
					s = "0" + s
				}
				usedIdx[s] = true
				text["idx:"+av] = s
				e.Index = s
			}
			e.IsDefault = str(vals[fmt.Sprintf("IsDefault_%d", i)])
			e.Binding = str(vals[fmt.Sprintf("Binding_%d", i)])
			e.Location = str(vals[fmt.Sprintf("Location_%d", i)])
			es = append(es, e)
		}
		reqS := str(vals["req"])
		var lits []string
		for _, e := range es {
			lits = append(lits, fmt.Sprintf("{Index: %q, IsDefault: %q, Binding: %q, Location: %q}", e.Index, e.IsDefault, e.Binding, e.Location))
		}
		test := fmt.Sprintf(replayGetAcsTest, strings.Join(lits, ", "), reqS)
		out, reproduced := runOverlayTest(p.repo, "pkg/provider", "zz_govc_replay_test.go", test, "TestGovcReplayC16", dir)
		res := map[string]interface{}{"attempted": true, "solver_verdict": verdict, "refutation_obligation": ro.Name,
			"input": map[string]interface{}{"acs": es, "requestProtocolBinding": reqS}, "go_test_output": trunc(out, 1500), "reproduced": reproduced}
		if reproduced {
			res["how"] = "go test -overlay (in-package test calling the real GetAcsUrlAndBindingForResponse, oracle: first binding match in document order, else first xs:boolean-true isDefault, else an entry of minimal index, nothing iff the list is empty)"
			return res
		}
		last = res
		if tried >= 24 {
			return res
		}
	}
	out := map[string]interface{}{"attempted": true, "reproduced": false, "reason": fmt.Sprintf("no model reproduced on the real code (%d refutation queries with lists of up to %d entries)", tried, maxN)}
	if last != nil {
		out["last_attempt"] = last
	}
	return out
}

const replayGetAcsTest = `package provider

import (
	"strconv"
	"testing"

	"github.com/zitadel/saml/pkg/provider/xml/md"
)

func TestGovcReplayC16(t *testing.T) {
	acs := []md.IndexedEndpointType{%s}
	req := %q
	url, binding := GetAcsUrlAndBindingForResponse(acs, req)
	isEntry := func(e md.IndexedEndpointType) bool { return url == e.Location && binding == e.Binding }
	verdict := ""
	switch {
	case len(acs) == 0:
		if url != "" || binding != "" {
			verdict = "nothing is registered but something was selected"
		}
	default:
		done := false
		for _, e := range acs {
			if e.Binding == req {
				if !isEntry(e) {
					verdict = "an entry with the requested binding exists but the first of them was not selected"
				}
				done = true
				break
			}
		}
		if !done {
			for _, e := range acs {
				if e.IsDefault == "true" || e.IsDefault == "1" {
					if !isEntry(e) {
						verdict = "no binding match: the first isDefault entry was not selected"
					}
					done = true
					break
				}
			}
		}
		if !done {
			min, _ := strconv.Atoi(acs[0].Index)
			for _, e := range acs {
				if i, _ := strconv.Atoi(e.Index); i < min {
					min = i
				}
			}
			ok := false
			for _, e := range acs {
				if i, _ := strconv.Atoi(e.Index); i == min && isEntry(e) {
					ok = true
				}
			}
			if !ok {
				verdict = "no match, no default: the selected pair is not an entry of minimal index"
			}
		}
	}
	if verdict != "" {
		t.Fatalf("GOVC-REPRODUCED: %%s (selected url=%%q binding=%%q)", verdict, url, binding)
	}
	t.Logf("GOVC-NOT-REPRODUCED: selected url=%%q binding=%%q", url, binding)
}
`

// runOverlayTest injects an in-package test file into the package with -overlay and runs it against the real code
func runOverlayTest(repo, pkgDir, fileName, content, testName, dir string) (string, bool) {
	tf := filepath.Join(dir, fileName)
	os.WriteFile(tf, []byte(content), 0o644)
	ov := map[string]map[string]string{"Replace": {filepath.Join(repo, pkgDir, fileName): tf}}
	data, _ := json.Marshal(ov)
	ovf := filepath.Join(dir, "overlay.json")
	os.WriteFile(ovf, data, 0o644)
	cmd := exec.Command("go", "test", "-overlay", ovf, "-vet=off", "-count=1", "-timeout", "60s", "-run", "^"+testName+"$", "-v", "./"+pkgDir+"/")
	cmd.Dir = repo
	cmd.Env = os.Environ()
	out, _ := cmd.CombinedOutput()
	s := string(out)
	return s, strings.Contains(s, "GOVC-REPRODUCED")
}

func sliceElem(t types.Type) types.Type { return t.Underlying().(*types.Slice).Elem() }

func structField(sv StructV, name string) *Term {
	st := sv.T.Underlying().(*types.Struct)
	for i := 0; i < st.NumFields(); i++ {
		if st.Field(i).Name() == name {
			return sv.F[i].(*Term)
		}
	}
	panic("no field " + name)
}

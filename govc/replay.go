package main

// tryReplay: concretise a counterexample and run it against the real code (per-function drivers).
func tryReplay(p *Program, prop string, o *Obligation, vc *VC, dir string) map[string]interface{} {
	return nil
}

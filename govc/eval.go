package main

// Evaluation of spec expressions over symbolic states.

import (
	"strconv"
	"fmt"
	"go/types"
	"strings"

	"golang.org/x/tools/go/ssa"
)

// SVal: a spec-level value. For struct-typed locations in memory Loc is the address and V is nil until loaded.
type SVal struct {
	V   Value
	T   types.Type
	Loc *Term // address of the value when it lives in memory (struct lvalues)
}

type SpecEval struct {
	vc    *VC
	fr    *Frame
	names map[string]SVal
	cur   *State
	old   *State
	bound map[string]*Term
	depth int
}

func (fr *Frame) evalClause(cl *Clause, cur, old *State, extra map[string]SVal) *Term {
	names := map[string]SVal{}
	for k, v := range fr.specEnv {
		names[k] = v
	}
	for k, v := range extra {
		names[k] = v
	}
	// loop-carried variables: phis by their source name (#name), range index as $ri
	ev := &SpecEval{vc: fr.vc, fr: fr, names: names, cur: cur, old: old}
	t, err := ev.safeBool(cl.Expr)
	if err != nil {
		// the clause cannot be interpreted on this code (e.g. it names a loop variable that no longer exists):
		// it is reported as a failed obligation of its own and contributes nothing as an assumption
		fr.vc.obls = append(fr.vc.obls, &Obligation{Name: fr.vc.oblName("spec", cl.Label), Kind: "spec", Props: fr.contract.clauseProps(cl), Goal: TFalse, Reach: cur.Reach, NFacts: len(fr.vc.facts), Fn: fr.vc.top.String(), Status: "failed", Solver: "spec-evaluator", Output: err.Error() + " (" + cl.Where + ")", Expect: "unsat"})
		return TTrue
	}
	return t
}

func (ev *SpecEval) safeBool(e *SExpr) (t *Term, err error) {
	defer func() {
		if r := recover(); r != nil {
			err = fmt.Errorf("%v", r)
		}
	}()
	return ev.evalBool(e), nil
}

func (ev *SpecEval) fail(f string, a ...interface{}) {
	panic(fmt.Sprintf("spec evaluation: "+f, a...))
}

func (ev *SpecEval) evalBool(e *SExpr) *Term {
	if ev.depth == 0 && !liftMode {
		liftMode = true
		defer func() { liftMode = false }()
	}
	v := ev.eval(e)
	t, ok := ev.rvalue(v).(*Term)
	if !ok || t.S != SBool {
		ev.fail("%s is not boolean", e)
	}
	return t
}

func (ev *SpecEval) rvalue(v SVal) Value {
	if v.V != nil {
		return v.V
	}
	if v.Loc != nil {
		return ev.cur.load(v.Loc, v.T)
	}
	ev.fail("no value")
	return nil
}

func (ev *SpecEval) term(e *SExpr) *Term {
	v := ev.rvalue(ev.eval(e))
	t, ok := v.(*Term)
	if !ok {
		ev.fail("%s is not a scalar (%T)", e, v)
	}
	return t
}

var intT = types.Typ[types.Int]
var boolT = types.Typ[types.Bool]
var strT = types.Typ[types.String]

func sortType(s *Sort) types.Type {
	switch s {
	case SInt:
		return intT
	case SBool:
		return boolT
	case SStr:
		return strT
	}
	return types.Typ[types.UnsafePointer]
}

func (ev *SpecEval) eval(e *SExpr) SVal {
	switch e.Kind {
	case "int":
		return SVal{V: IntLit(e.Int), T: intT}
	case "str":
		return SVal{V: StrLit(e.Name), T: strT}
	case "ident":
		return ev.ident(e.Name)
	case "unary":
		switch e.Name {
		case "!":
			return SVal{V: Not(ev.evalBool(e.Args[0])), T: boolT}
		case "-":
			return SVal{V: SubI(IntLit(0), ev.term(e.Args[0])), T: intT}
		}
	case "binary":
		return ev.binary(e)
	case "cond":
		c := ev.evalBool(e.Args[0])
		a := ev.eval(e.Args[1])
		b := ev.eval(e.Args[2])
		return SVal{V: iteValue(c, ev.rvalue(a), ev.rvalue(b)), T: a.T}
	case "quant":
		saved := ev.bound
		nb := map[string]*Term{}
		for k, v := range saved {
			nb[k] = v
		}
		var vars []*Term
		for _, n := range e.Vars {
			s := SInt
			name := n
			if i := strings.Index(n, "$"); i > 0 { // x$Str
				s = sortByName(n[i+1:])
				name = n[:i]
			}
			freshCounter++
			bv := BoundVar(fmt.Sprintf("%s!q%d", name, freshCounter), s)
			nb[name] = bv
			vars = append(vars, bv)
		}
		ev.bound = nb
		body := ev.evalBool(e.Args[0])
		ev.bound = saved
		if e.Name == "forall" {
			return SVal{V: Forall(vars, body), T: boolT}
		}
		return SVal{V: Exists(vars, body), T: boolT}
	case "field":
		if e.Args[0].Kind == "ident" {
			// pkg.Name: a package-level constant or variable
			if _, isName := ev.names[e.Args[0].Name]; !isName {
				if _, isBound := ev.bound[e.Args[0].Name]; !isBound {
					if v, t, ok := ev.vc.prog.lookupGlobal(e.Args[0].Name+"."+e.Name, ev.contextPkg(), ev.cur); ok {
						return SVal{V: v, T: t}
					}
				}
			}
		}
		return ev.field(ev.eval(e.Args[0]), e.Name, e)
	case "index":
		return ev.index(ev.eval(e.Args[0]), ev.term(e.Args[1]), e)
	case "call":
		return ev.callSpec(e)
	}
	ev.fail("cannot evaluate %s", e)
	return SVal{}
}

func (ev *SpecEval) ident(name string) SVal {
	if bv, ok := ev.bound[name]; ok {
		return SVal{V: bv, T: sortType(bv.S)}
	}
	if v, ok := ev.names[name]; ok {
		return v
	}
	switch name {
	case "true":
		return SVal{V: TTrue, T: boolT}
	case "false":
		return SVal{V: TFalse, T: boolT}
	case "nil":
		return SVal{V: TNil, T: types.Typ[types.UntypedNil]}
	}
	// map iteration ghosts of the current frame: $mtok = order token of the map range, $mi = index of the last key handed out
	if ev.fr != nil && (name == "$mtok" || name == "$mi") {
		if t := ev.fr.mapIterGhost(name, ev.cur); t != nil {
			return SVal{V: t, T: intT}
		}
		ev.fail("%s: no string-keyed map range executed in %s", name, ev.fr.fn)
	}
	// loop-carried variable of the current frame
	if ev.fr != nil && (strings.HasPrefix(name, "#") || strings.HasPrefix(name, "$")) {
		if v, t, ok := ev.fr.lookupSSAName(name); ok {
			return SVal{V: v, T: t}
		}
	}
	if gd, ok := ev.vc.prog.specs.Ghost[name]; ok {
		return SVal{V: ev.cur.ghostVar(ev.vc, gd), T: sortType(gd.S)}
	}
	// package-level constant or variable of the module: pkg.Name or Name (package of the function under contract)
	if v, t, ok := ev.vc.prog.lookupGlobal(name, ev.contextPkg(), ev.cur); ok {
		return SVal{V: v, T: t}
	}
	ev.fail("unknown identifier %s", name)
	return SVal{}
}

func (st *State) ghostVar(vc *VC, gd *GhostDef) *Term {
	if g, ok := st.Ghost[gd.Name]; ok {
		return g
	}
	g := Var("g."+gd.Name+"@0", gd.S)
	st.Ghost[gd.Name] = g
	vc.ghostEntry[gd.Name] = g
	return g
}

func (ev *SpecEval) contextPkg() *ssa.Package {
	if ev.fr != nil && ev.fr.fn != nil {
		f := ev.fr.fn
		for f.Parent() != nil {
			f = f.Parent()
		}
		if f.Pkg != nil {
			return f.Pkg
		}
	}
	f := ev.vc.top
	for f.Parent() != nil {
		f = f.Parent()
	}
	return f.Pkg
}

// lookupSSAName: "#x" = the phi carrying source variable x at the innermost enclosing cut loop head,
// "$ri" = the range index phi
// "#x~kindN" adds a fallback for the case that the local was renamed: the N-th loop-carried variable of that kind (str, int, bool,
// slice, ref) at the cut loop head, in declaration order. A wrong guess cannot make a proof succeed wrongly - the invariant
// is a checked obligation - it only keeps a pure rename from raising an alarm.
func (fr *Frame) lookupSSAName(name string) (Value, types.Type, bool) {
	if k := strings.Index(name, "~"); k > 0 {
		if v, t, ok := fr.lookupSSAName(name[:k]); ok {
			return v, t, true
		}
		hint := name[k+1:]
		kind := strings.TrimRight(hint, "0123456789")
		n, _ := strconv.Atoi(hint[len(kind):])
		if fr.curLoopHead == nil {
			return nil, nil, false
		}
		for _, ins := range fr.curLoopHead.Instrs {
			phi, ok := ins.(*ssa.Phi)
			if !ok {
				break
			}
			if phi.Comment == "rangeindex" || kindOf(phi.Type()) != kind {
				continue
			}
			if n == 0 {
				if v, have := fr.env[phi]; have {
					return v, phi.Type(), true
				}
				return nil, nil, false
			}
			n--
		}
		return nil, nil, false
	}
	want := strings.TrimLeft(name, "#$")
	if name == "$ri" {
		want = "rangeindex"
	}
	if name == "$ri2" {
		// the range index of the loop that encloses the innermost cut loop
		if fr.curLoopHead == nil || fr.loops == nil {
			return nil, nil, false
		}
		l := fr.loops.ByHead[fr.curLoopHead]
		for l = l.Parent; l != nil; l = l.Parent {
			for _, ins := range l.Head.Instrs {
				if phi, ok := ins.(*ssa.Phi); ok && phi.Comment == "rangeindex" {
					if v, have := fr.env[phi]; have {
						return v, phi.Type(), true
					}
				}
			}
		}
		return nil, nil, false
	}
	var best *ssa.Phi
	for v := range fr.env {
		phi, ok := v.(*ssa.Phi)
		if !ok || phi.Comment != want {
			continue
		}
		if fr.curLoopHead != nil && phi.Block() == fr.curLoopHead {
			best = phi
			break
		}
		if best == nil || phi.Block().Index > best.Block().Index {
			best = phi
		}
	}
	if best != nil {
		return fr.env[best], best.Type(), true
	}
	// source-level variable names through debug references (value of the variable at its last reference executed)
	var dbg ssa.Value
	for _, b := range fr.fn.Blocks {
		for _, ins := range b.Instrs {
			if d, ok := ins.(*ssa.DebugRef); ok && !d.IsAddr && d.Object() != nil && d.Object().Name() == want {
				if _, have := fr.env[d.X]; have {
					if _, isConst := d.X.(*ssa.Const); !isConst {
						dbg = d.X
					}
				}
			}
		}
	}
	if dbg != nil {
		return fr.env[dbg], dbg.Type(), true
	}
	// named local allocs (captured variables)
	for v := range fr.env {
		if a, ok := v.(*ssa.Alloc); ok && a.Comment == want {
			return fr.env[a], a.Type(), true
		}
	}
	return nil, nil, false
}

// mapIterGhost finds the map range of this frame's function whose ghosts are present in st; when the innermost cut loop
// advances one (its Next is in that loop) that one is preferred, otherwise the last in block order
func (fr *Frame) mapIterGhost(name string, st *State) *Term {
	var best *ssa.Range
	inCur := false
	for _, b := range fr.fn.Blocks {
		for _, ins := range b.Instrs {
			nx, ok := ins.(*ssa.Next)
			if !ok {
				continue
			}
			r := nx.Iter.(*ssa.Range)
			if _, have := st.Ghost["$mtok:"+rangeID(r)]; !have {
				continue
			}
			cur := false
			if fr.curLoopHead != nil && fr.loops != nil {
				if l := fr.loops.ByHead[fr.curLoopHead]; l != nil && l.Blocks[b] {
					cur = true
				}
			}
			if best == nil || cur || !inCur {
				best = r
				inCur = inCur || cur
			}
		}
	}
	if best == nil {
		return nil
	}
	return st.Ghost[name+":"+rangeID(best)]
}

func (ev *SpecEval) binary(e *SExpr) SVal {
	op := e.Name
	switch op {
	case "&&":
		return SVal{V: And(ev.evalBool(e.Args[0]), ev.evalBool(e.Args[1])), T: boolT}
	case "||":
		return SVal{V: Or(ev.evalBool(e.Args[0]), ev.evalBool(e.Args[1])), T: boolT}
	case "==>":
		return SVal{V: Implies(ev.evalBool(e.Args[0]), ev.evalBool(e.Args[1])), T: boolT}
	case "<==>":
		return SVal{V: Eq(ev.evalBool(e.Args[0]), ev.evalBool(e.Args[1])), T: boolT}
	case "==", "!=":
		a, b := ev.eval(e.Args[0]), ev.eval(e.Args[1])
		var t *Term
		switch {
		case kindOf(b.T) == "nil":
			t = isZero(ev.rvalue(a), a.T)
		case kindOf(a.T) == "nil":
			t = isZero(ev.rvalue(b), b.T)
		default:
			t = eqValue(ev.rvalue(a), ev.rvalue(b))
		}
		if op == "!=" {
			t = Not(t)
		}
		return SVal{V: t, T: boolT}
	}
	a, b := ev.term(e.Args[0]), ev.term(e.Args[1])
	switch op {
	case "<":
		return SVal{V: Lt(a, b), T: boolT}
	case "<=":
		return SVal{V: Le(a, b), T: boolT}
	case ">":
		return SVal{V: Lt(b, a), T: boolT}
	case ">=":
		return SVal{V: Le(b, a), T: boolT}
	case "+":
		if a.S == SStr {
			return SVal{V: Concat(a, b), T: strT}
		}
		return SVal{V: Add(a, b), T: intT}
	case "-":
		return SVal{V: SubI(a, b), T: intT}
	case "*":
		return SVal{V: Mul(a, b), T: intT}
	}
	ev.fail("operator %s", op)
	return SVal{}
}

func (ev *SpecEval) field(x SVal, name string, e *SExpr) SVal {
	t := x.T
	// auto-dereference pointers
	if p, ok := t.Underlying().(*types.Pointer); ok {
		ref, ok := ev.rvalue(x).(*Term)
		if !ok {
			// pointer into a local
			lp := ev.rvalue(x).(LocalPtr)
			v := getPath(ev.cur.Locals[lp.Cell], lp.Path)
			return ev.field(SVal{V: v, T: p.Elem()}, name, e)
		}
		x = SVal{Loc: ref, T: p.Elem()}
		t = p.Elem()
	}
	st, ok := t.Underlying().(*types.Struct)
	if !ok {
		ev.fail("%s: field %s of non-struct %s", e, name, t)
	}
	for i := 0; i < st.NumFields(); i++ {
		if st.Field(i).Name() != name {
			continue
		}
		ft := st.Field(i).Type()
		if x.Loc != nil {
			addr := Sub(x.Loc, fieldID(t, i))
			if kindOf(ft) == "struct" {
				return SVal{Loc: addr, T: ft}
			}
			return SVal{V: ev.cur.load(addr, ft), T: ft, Loc: addr}
		}
		return SVal{V: x.V.(StructV).F[i], T: ft}
	}
	ev.fail("%s: no field %s in %s", e, name, t)
	return SVal{}
}

func (ev *SpecEval) index(x SVal, i *Term, e *SExpr) SVal {
	sl, ok := x.T.Underlying().(*types.Slice)
	if !ok {
		ev.fail("%s: indexing non-slice %s", e, x.T)
	}
	s := ev.rvalue(x).(SliceV)
	addr := Elem(s.Base, i)
	if kindOf(sl.Elem()) == "struct" {
		return SVal{Loc: addr, T: sl.Elem()}
	}
	return SVal{V: ev.cur.load(addr, sl.Elem()), T: sl.Elem(), Loc: addr}
}

func (ev *SpecEval) callSpec(e *SExpr) SVal {
	switch e.Name {
	case "old":
		saved := ev.cur
		ev.cur = ev.old
		v := ev.eval(e.Args[0])
		r := SVal{V: ev.rvalue(v), T: v.T}
		ev.cur = saved
		return r
	case "len":
		v := ev.eval(e.Args[0])
		switch x := ev.rvalue(v).(type) {
		case SliceV:
			return SVal{V: x.Len, T: intT}
		case *Term:
			if x.S == SStr {
				return SVal{V: StrLen(x), T: intT}
			}
		}
		ev.fail("len of %s", e.Args[0])
	case "isnil":
		v := ev.eval(e.Args[0])
		return SVal{V: isZero(ev.rvalue(v), v.T), T: boolT}
	case "fresh":
		// allocated during the call: family id at least the entry counter of the function under proof (1)
		v := ev.term(e.Args[0])
		return SVal{V: Le(IntLit(1), RootID(v)), T: boolT}
	case "rootid":
		return SVal{V: RootID(ev.term(e.Args[0])), T: intT}
	case "iterlen": // iterlen(tok): number of keys a map range visits
		return SVal{V: App("iterlen", SInt, ev.term(e.Args[0])), T: intT}
	case "mapkeyat": // mapkeyat(tok, j): the j-th key visited
		return SVal{V: App("mapkeyat", SStr, ev.term(e.Args[0]), ev.term(e.Args[1])), T: strT}
	case "isIterOrder": // isIterOrder(tok, m): tok enumerates exactly the keys present in m, each once
		m, ok := ev.rvalue(ev.eval(e.Args[1])).(*Term)
		if !ok {
			ev.fail("isIterOrder(tok, map)")
		}
		return SVal{V: iterOrderTerm(ev.term(e.Args[0]), m, ev.cur.heapGet("M:has")), T: boolT}
	case "errmsg":
		v := ev.rvalue(ev.eval(e.Args[0])).(IfaceV)
		return SVal{V: App("errmsg", SStr, v.Val), T: strT}
	case "string": // string(bytes)
		v := ev.rvalue(ev.eval(e.Args[0]))
		if b, ok := v.(SliceV); ok {
			return SVal{V: Ite(Eq(b.Base, TNil), StrLit(""), Select(ev.cur.heapGet("C:bytes"), b.Base)), T: strT}
		}
		return SVal{V: v, T: strT}
	case "deref": // deref(p): the struct a pointer refers to
		v := ev.eval(e.Args[0])
		p := v.T.Underlying().(*types.Pointer)
		if kindOf(p.Elem()) != "struct" {
			return SVal{V: ev.cur.load(ev.rvalue(v).(*Term), p.Elem()), T: p.Elem()}
		}
		return SVal{Loc: ev.rvalue(v).(*Term), T: p.Elem()}
	case "as": // as(ref, "pkg.Type"): view a reference (e.g. the payload of an interface) as a pointer to the named struct type
		var ref *Term
		switch x := ev.rvalue(ev.eval(e.Args[0])).(type) {
		case *Term:
			ref = x
		case IfaceV:
			ref = x.Val
		}
		if ref == nil || len(e.Args) != 2 || e.Args[1].Kind != "str" {
			ev.fail("as(ref, \"pkg.Type\")")
		}
		t := ev.vc.prog.namedType(e.Args[1].Name)
		if t == nil {
			ev.fail("unknown type %s", e.Args[1].Name)
		}
		return SVal{Loc: ref, T: t}
	case "hastype": // hastype(iface, "pkg.Type" | "*pkg.Type")
		iv := ev.rvalue(ev.eval(e.Args[0])).(IfaceV)
		name := e.Args[1].Name
		var t types.Type
		if strings.HasPrefix(name, "*") {
			if nt := ev.vc.prog.namedType(name[1:]); nt != nil {
				t = types.NewPointer(nt)
			}
		} else {
			t = ev.vc.prog.namedType(name)
		}
		if t == nil {
			ev.fail("unknown type %s", name)
		}
		return SVal{V: Eq(iv.Tag, IntLit(typeTag(t))), T: boolT}
	case "plainStringFields": // plainStringFields("pkg.Type"): every field of the struct type is of the basic type string (not template.HTML, template.URL, ...)
		t := ev.vc.prog.namedType(e.Args[0].Name)
		if t == nil {
			ev.fail("unknown type %s", e.Args[0].Name)
		}
		stt, ok := t.Underlying().(*types.Struct)
		if !ok {
			ev.fail("%s is not a struct", e.Args[0].Name)
		}
		all := true
		for i := 0; i < stt.NumFields(); i++ {
			if b, ok := stt.Field(i).Type().(*types.Basic); !ok || b.Kind() != types.String {
				all = false
			}
		}
		return SVal{V: BoolLit(all), T: boolT}
	case "typetag": // typetag("pkg.Type" | "*pkg.Type"): the dynamic-type tag of a type
		name := e.Args[0].Name
		var t types.Type
		if strings.HasPrefix(name, "*") {
			if nt := ev.vc.prog.namedType(name[1:]); nt != nil {
				t = types.NewPointer(nt)
			}
		} else {
			t = ev.vc.prog.namedType(name)
		}
		if t == nil {
			ev.fail("unknown type %s", name)
		}
		return SVal{V: IntLit(typeTag(t)), T: intT}
	case "eqExcept": // eqExcept(a, b, "Field"...): two structs of the same type agree on every field but the named ones (shallow)
		a := ev.rvalue(ev.eval(e.Args[0])).(StructV)
		b := ev.rvalue(ev.eval(e.Args[1])).(StructV)
		stt := a.T.Underlying().(*types.Struct)
		skip := map[string]bool{}
		for _, x := range e.Args[2:] {
			skip[x.Name] = true
			found := false
			for i := 0; i < stt.NumFields(); i++ {
				if stt.Field(i).Name() == x.Name {
					found = true
				}
			}
			if !found {
				ev.fail("eqExcept: no field %s in %s", x.Name, a.T)
			}
		}
		var cs []*Term
		for i := 0; i < stt.NumFields(); i++ {
			if !skip[stt.Field(i).Name()] {
				cs = append(cs, eqValue(a.F[i], b.F[i]))
			}
		}
		return SVal{V: And(cs...), T: boolT}
	case "tagof":
		v := ev.rvalue(ev.eval(e.Args[0])).(IfaceV)
		return SVal{V: v.Tag, T: intT}
	case "valof":
		v := ev.rvalue(ev.eval(e.Args[0])).(IfaceV)
		return SVal{V: v.Val, T: types.Typ[types.UnsafePointer]}
	case "fnid":
		v := ev.term(e.Args[0])
		return SVal{V: v, T: intT}
	case "base":
		v := ev.rvalue(ev.eval(e.Args[0])).(SliceV)
		return SVal{V: v.Base, T: types.Typ[types.UnsafePointer]}
	case "isClosure": // isClosure(fnvalue, "pkg.Func$1", binding...)
		fv := ev.term(e.Args[0])
		if len(e.Args) < 2 || e.Args[1].Kind != "str" {
			ev.fail("isClosure(f, \"name\", bindings...)")
		}
		var alts []*Term
		for id, c := range ev.vc.closures {
			if ev.vc.prog.shortName(c.Fn) != e.Args[1].Name || len(c.Bindings) != len(e.Args)-2 {
				continue
			}
			cs := []*Term{Eq(fv, IntLit(id))}
			for i, b := range c.Bindings {
				want := ev.rvalue(ev.eval(e.Args[i+2]))
				// captured variables are bound by reference: compare the content of the captured cell
				if ref, ok := b.(*Term); ok && ref.S == SRef && c.Fn.Synthetic == "" {
					if pt, ok := c.Fn.FreeVars[i].Type().Underlying().(*types.Pointer); ok {
						cs = append(cs, eqValue(ev.cur.load(ref, pt.Elem()), want))
						continue
					}
				}
				cs = append(cs, eqValue(b, want))
			}
			alts = append(alts, And(cs...))
		}
		return SVal{V: Or(alts...), T: boolT}
	case "maphas": // maphas(m, key): key present in a Go map value
		mv := ev.eval(e.Args[0])
		m := ev.rvalue(mv).(*Term)
		key := mapKeyTerm(ev.rvalue(ev.eval(e.Args[1])))
		return SVal{V: Select(ev.cur.heapGet("M:has"), MKey(m, key)), T: boolT}
	case "lookup": // lookup(m, key): m[key] of a Go map value
		mv := ev.eval(e.Args[0])
		mt, ok := mv.T.Underlying().(*types.Map)
		if !ok {
			ev.fail("lookup on non-map %s", mv.T)
		}
		m := ev.rvalue(mv).(*Term)
		key := mapKeyTerm(ev.rvalue(ev.eval(e.Args[1])))
		cell := MKey(m, key)
		has := Select(ev.cur.heapGet("M:has"), cell)
		return SVal{V: iteValue(has, ev.cur.load(cell, mt.Elem()), zeroValue(mt.Elem())), T: mt.Elem()}
	case "store": // store(array, index, value)
		a := ev.term(e.Args[0])
		i := ev.term(e.Args[1])
		v := ev.term(e.Args[2])
		return SVal{V: Store(a, i, v), T: types.Typ[types.UnsafePointer]}
	case "strslice": // strslice(base, len): a []string value
		b := ev.term(e.Args[0])
		n := ev.term(e.Args[1])
		return SVal{V: SliceV{b, n}, T: types.NewSlice(strT)}
	case "select": // select(ghostArray, i)
		a := ev.term(e.Args[0])
		i := ev.term(e.Args[1])
		return SVal{V: Select(a, i), T: sortType(a.S.Val)}
	}
	if pd, ok := ev.vc.prog.specs.Pure[e.Name]; ok {
		if len(pd.Params) != len(e.Args) {
			ev.fail("%s: wrong number of arguments", e)
		}
		if ev.depth > 20 {
			ev.fail("%s: pure functions nested too deeply", e)
		}
		saved := ev.names
		nn := map[string]SVal{}
		for k, v := range saved {
			nn[k] = v
		}
		for i, p := range pd.Params {
			nn[p] = ev.eval(e.Args[i])
		}
		// bound variables stay visible
		ev.names = nn
		ev.depth++
		r := ev.eval(pd.Body)
		ev.depth--
		ev.names = saved
		return r
	}
	if ad, ok := ev.vc.prog.specs.Abstract[e.Name]; ok {
		var args []*Term
		for i, a := range e.Args {
			v := ev.rvalue(ev.eval(a))
			switch x := v.(type) {
			case *Term:
				args = append(args, x)
			case IfaceV:
				args = append(args, x.Val)
			case SliceV:
				if ad.Args[i] == SStr {
					args = append(args, Ite(Eq(x.Base, TNil), StrLit(""), Select(ev.cur.heapGet("C:bytes"), x.Base)))
				} else {
					args = append(args, x.Base)
				}
			default:
				ev.fail("%s: argument %d is not scalar", e, i)
			}
			if args[i].S != ad.Args[i] {
				ev.fail("%s: argument %d has sort %s, want %s", e, i, args[i].S, ad.Args[i])
			}
		}
		return SVal{V: App(e.Name, ad.Ret, args...), T: sortType(ad.Ret)}
	}
	ev.fail("unknown function %s", e.Name)
	return SVal{}
}

#!/usr/bin/env python3
# usage: seedsweep.py [jobs] [seed-id-prefix...] : every seeded change applied to its own scratch copy of /repo, the quick check of the
# property it breaks run on the copy (the /repo tree is not touched); prints one line per seed and a summary
import json, os, shutil, subprocess, sys, tempfile, glob
from concurrent.futures import ThreadPoolExecutor
verif = os.path.dirname(os.path.abspath(__file__))
jobs = int(sys.argv[1]) if len(sys.argv) > 1 else 4
pref = sys.argv[2:]
seeds = sorted(glob.glob(os.path.join(verif, 'seeded', 'C*-*')))
if pref:
    seeds = [s for s in seeds if any(os.path.basename(s).startswith(p) for p in pref)]
def one(sd):
    sid = os.path.basename(sd); prop = sid.split('-')[0]
    tmp = tempfile.mkdtemp(prefix='govc-seedsweep-')
    try:
        repo = os.path.join(tmp, 'repo')
        shutil.copytree('/repo', repo, ignore=shutil.ignore_patterns('.git'))
        vd = os.path.join(tmp, 'verif'); os.makedirs(vd); os.makedirs(os.path.join(vd, 'evidence')); os.makedirs(os.path.join(vd, 'replays'))
        os.symlink(os.path.join(verif, 'contracts'), os.path.join(vd, 'contracts'))
        shutil.copy(os.path.join(verif, 'known_findings.jsonl'), vd)
        r = subprocess.run(['patch', '-p1', '-s', '-d', repo, '-i', os.path.join(sd, 'patch.diff')], capture_output=True, text=True)
        if r.returncode != 0:
            return sid, None, 'patch does not apply'
        env = dict(os.environ, VERIF_REPO=repo, VERIF_DIR=vd)
        try:
            r = subprocess.run([os.path.join(verif, 'bin', 'govc'), 'check', prop, 'quick'], capture_output=True, text=True, env=env, timeout=1200)
        except subprocess.TimeoutExpired:
            return sid, None, 'timeout'
        viol = [l for l in r.stdout.splitlines() if l.startswith('VIOLATION')]
        names = [l.split('obligation=')[1].split(' status=')[0] for l in viol if 'obligation=' in l]
        return sid, len(viol) > 0, '%d violations exit=%d %s' % (len(viol), r.returncode, '; '.join(n.split('/', 1)[-1] for n in names[:3]))
    finally:
        shutil.rmtree(tmp, ignore_errors=True)
with ThreadPoolExecutor(jobs) as ex:
    res = list(ex.map(one, seeds))
for sid, det, note in res:
    print('%-7s %-4s %s' % (sid, {True: 'yes', False: 'NO', None: '??'}[det], note[:200]))
print('SUMMARY %d seeds, %d detected, %d missed' % (len(res), sum(1 for r in res if r[1]), sum(1 for r in res if r[1] is False)))

#!/usr/bin/env python3
# thorough tier: apply each seeded change of the property to a scratch copy of /repo, run the quick check on the copy,
# record in evidence/<id>.json (coverage.selftest) whether the change is still detected
import json, os, shutil, subprocess, sys, tempfile, glob
prop = sys.argv[1]
verif = os.path.dirname(os.path.abspath(__file__))
seeds = sorted(glob.glob(os.path.join(verif, 'seeded', prop + '-*')))
results = []
for sd in seeds:
    tmp = tempfile.mkdtemp(prefix='govc-selftest-')
    try:
        repo = os.path.join(tmp, 'repo')
        shutil.copytree('/repo', repo, ignore=shutil.ignore_patterns('.git'))
        vd = os.path.join(tmp, 'verif')
        os.makedirs(vd)
        os.symlink(os.path.join(verif, 'contracts'), os.path.join(vd, 'contracts'))
        shutil.copy(os.path.join(verif, 'known_findings.jsonl'), vd)
        r = subprocess.run(['patch', '-p1', '-s', '-d', repo, '-i', os.path.join(sd, 'patch.diff')], capture_output=True, text=True)
        if r.returncode != 0:
            results.append({'seed': os.path.basename(sd), 'detected': None, 'note': 'patch no longer applies to the current tree'})
            continue
        env = dict(os.environ, VERIF_REPO=repo, VERIF_DIR=vd)
        r = subprocess.run([os.path.join(verif, 'bin', 'govc'), 'check', prop, 'quick'], capture_output=True, text=True, env=env, timeout=1500)
        viol = [l for l in r.stdout.splitlines() if l.startswith('VIOLATION')]
        names = [l.split('obligation=')[1].split(' status=')[0] for l in viol if 'obligation=' in l]
        results.append({'seed': os.path.basename(sd), 'detected': len(viol) > 0, 'exit': r.returncode, 'violations': len(viol), 'obligations': names[:6]})
        print('SELFTEST property=%s seed=%s detected=%s' % (prop, os.path.basename(sd), 'yes' if viol else 'NO'))
    finally:
        shutil.rmtree(tmp, ignore_errors=True)
ev = os.path.join(verif, 'evidence', prop + '.json')
e = json.load(open(ev))
e['coverage']['selftest'] = {'what': 'each seeded property-breaking change of /verif/seeded for this property applied to a scratch copy of /repo; the quick check must raise an alarm on it', 'results': results,
                             'seeds': len(results), 'detected': sum(1 for x in results if x.get('detected'))}
json.dump(e, open(ev, 'w'), indent=1)

#!/bin/sh
# usage: seedconfirm.sh <dir with patch.diff demo_test.go DEMO_PATH.txt> : confirms a seeded change in a scratch worktree
# (suite passes with the change, demo fails with it, demo passes without); prints CONFIRMED or the reason
d=$1
. /verif/env.sh
W=/tmp/seed/confirm
rm -rf $W; git -C /repo worktree prune; git -C /repo worktree add -q --detach $W HEAD || exit 9
cd $W
dp=$(cat $d/DEMO_PATH.txt | tr -d '\n ')
res=CONFIRMED
git apply $d/patch.diff || res="patch does not apply"
if [ "$res" = CONFIRMED ]; then
  go build ./... >/tmp/seed/confirm.log 2>&1 || res="does not build"
fi
if [ "$res" = CONFIRMED ]; then
  go test -vet=off -count=1 ./... >>/tmp/seed/confirm.log 2>&1 || res="existing tests fail with the change"
fi
if [ "$res" = CONFIRMED ]; then
  cp $d/demo_test.go $W/$dp
  pkg=./$(dirname $dp)
  if go test -vet=off -count=1 $pkg >>/tmp/seed/confirm.log 2>&1; then res="demo passes WITH the change"; fi
  git checkout -q -- . 
  if ! go test -vet=off -count=1 $pkg >>/tmp/seed/confirm.log 2>&1; then res="demo fails WITHOUT the change"; fi
fi
cd /; git -C /repo worktree remove --force $W
echo "$res"

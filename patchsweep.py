#!/usr/bin/env python3
# usage: patchsweep.py <jobs> <patch>:<prop,prop,...> ... : apply each patch to its own scratch copy of /repo and run the named quick checks on
# the copy (the /repo tree is not touched). Used for harmless refactorings (every check must stay quiet) as well as for seeded changes.
import os, shutil, subprocess, sys, tempfile
from concurrent.futures import ThreadPoolExecutor
verif = os.path.dirname(os.path.abspath(__file__))
jobs = int(sys.argv[1])
work = []
for a in sys.argv[2:]:
    patch, props = a.rsplit(':', 1)
    for p in props.split(','):
        work.append((patch, p))
def one(w):
    patch, prop = w
    tmp = tempfile.mkdtemp(prefix='govc-patchsweep-')
    try:
        repo = os.path.join(tmp, 'repo')
        shutil.copytree('/repo', repo, ignore=shutil.ignore_patterns('.git'))
        vd = os.path.join(tmp, 'verif'); os.makedirs(os.path.join(vd, 'evidence')); os.makedirs(os.path.join(vd, 'replays'))
        os.symlink(os.path.join(verif, 'contracts'), os.path.join(vd, 'contracts'))
        shutil.copy(os.path.join(verif, 'known_findings.jsonl'), vd)
        r = subprocess.run(['patch', '-p1', '-s', '-d', repo, '-i', patch], capture_output=True, text=True)
        if r.returncode != 0:
            return patch, prop, None, 'patch does not apply'
        env = dict(os.environ, VERIF_REPO=repo, VERIF_DIR=vd)
        try:
            r = subprocess.run([os.path.join(verif, 'bin', 'govc'), 'check', prop, 'quick'], capture_output=True, text=True, env=env, timeout=1200)
        except subprocess.TimeoutExpired:
            return patch, prop, None, 'timeout'
        viol = [l for l in (r.stdout + r.stderr).splitlines() if l.startswith('VIOLATION') or l.startswith('ENGINE-ERROR')]
        names = [l.split('obligation=')[1].split(' status=')[0] if 'obligation=' in l else l[:160] for l in viol]
        return patch, prop, len(viol), 'exit=%d %s' % (r.returncode, '; '.join(names[:4]))
    finally:
        shutil.rmtree(tmp, ignore_errors=True)
with ThreadPoolExecutor(jobs) as ex:
    for patch, prop, n, note in ex.map(one, work):
        print('%-40s %-4s %-5s %s' % (os.path.basename(os.path.dirname(patch)) + '/' + os.path.basename(patch), prop, {None: '??', 0: 'quiet'}.get(n, 'ALARM'), note[:300]), flush=True)

#!/bin/sh
# builds /verif/bin/govc offline from /verif/govc (x/tools v0.29.0 from the module cache)
set -e
cd "$(dirname "$0")"
. ./env.sh
mkdir -p bin evidence replays
if [ -d govc ]; then (cd govc && go build -o ../bin/govc .); fi

#!/bin/sh
# usage: seedrun.sh <seed id> <property>... : apply seeded/<id>/patch.diff to /repo, run the quick checks named, undo; prints which alarm
id=$1; shift
git -C /repo apply /verif/seeded/$id/patch.diff || { echo "$id: patch does not apply"; exit 9; }
trap 'git -C /repo apply -R /verif/seeded/$id/patch.diff' INT TERM
for c in "$@"; do
  cp /verif/evidence/$c.json /tmp/.seedrun_ev_$c.json 2>/dev/null   # the run rewrites the evidence file with the violating run: keep the real one
  out=$(timeout 1200 /verif/check $c quick 2>&1); rc=$?
  n=$(echo "$out" | grep -c "^VIOLATION")
  mv /tmp/.seedrun_ev_$c.json /verif/evidence/$c.json 2>/dev/null
  echo "$id $c exit=$rc violations=$n"
  echo "$out" | grep "^VIOLATION" | sed 's/.*obligation=//' | cut -c1-150 | head -5 | sed 's/^/    /'
done
git -C /repo apply -R /verif/seeded/$id/patch.diff || echo "REVERT FAILED"
git -C /repo status --short | grep -v '^??'

# sourced by every /verif script: offline Go environment for /repo (go.mod needs go1.23.7)
export PATH=/root/go/pkg/mod/golang.org/toolchain@v0.0.1-go1.23.7.linux-amd64/bin:$PATH
export GOTOOLCHAIN=local GOFLAGS=-mod=mod GOPROXY=off GOSUMDB=off
